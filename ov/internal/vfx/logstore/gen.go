package logstore

import (
	"fmt"
	"math"

	"pgregory.net/rapid"

	pb "github.com/lni/dragonboat/v4/raftpb"
)

// GenCfg bounds and steers the generator.
type GenCfg struct {
	MaxEntries int // entries written per replica
	MaxOps     int
	MinOps     int
	// which call kinds may be generated
	NoCompact, NoRemoveNode, NoImport, NoQuery, NoReopen, NoBootstrap, NoRemoveEntries bool
	BigCmd                                                                             bool // allow multi-KB commands
	HugeCmd                                                                            bool // allow (rare) commands above 32 KiB
	// NoCommitOnly: a hard-state update without entries/snapshot never changes
	// the commit index alone (tan writes such records without fsync, which is
	// the trigger of known finding S9)
	NoCommitOnly bool
	// Weights overrides the default weight of call kinds
	Weights map[OpKind]int
	// NewLife: a replica whose node data was removed may be written again (a new
	// life: first save carries a state, the log restarts at 1 or at a snapshot)
	NewLife bool
	// GiantOneIn: one in so many updates with entries gets one command of
	// 40-120 KB, so that the marshalled update spans several 32 KiB record blocks
	// of tan (0: never)
	GiantOneIn int
	// AllowS2 / AllowS3 decide whether a call of the known-finding shape may be
	// generated this time (nil: never). Count is told about exclusions.
	AllowS2 func(t *rapid.T) bool
	AllowS3 func(t *rapid.T) bool
	Count   func(label string)
}

func (c *GenCfg) cmdLevel() int {
	switch {
	case c.HugeCmd:
		return 2
	case c.BigCmd:
		return 1
	}
	return 0
}

func (c *GenCfg) count(label string) {
	if c.Count != nil {
		c.Count(label)
	}
}

func splitmix(x uint64) uint64 {
	x += 0x9e3779b97f4a7c15
	x = (x ^ (x >> 30)) * 0xbf58476d1ce4e5b9
	x = (x ^ (x >> 27)) * 0x94d049bb133111eb
	return x ^ (x >> 31)
}

// GenModel draws 2-4 (shard, replica) pairs.
func GenModel(t *rapid.T, tr Traits) *Model {
	n := rapid.IntRange(2, 4).Draw(t, "pairs")
	m := &Model{}
	used := map[uint64]bool{}
	if tr.Mux {
		class := uint64(rapid.IntRange(1, 16).Draw(t, "class"))
		for i := 0; i < n; i++ {
			var shard uint64
			for {
				k := uint64(rapid.IntRange(0, 7).Draw(t, "k"))
				shard = class + 16*k
				if i == n-1 && n > 2 && rapid.IntRange(0, 3).Draw(t, "otherdb") == 0 {
					shard = class%16 + 1 + 16*k
				}
				if !used[shard] {
					break
				}
			}
			used[shard] = true
			m.Reps = append(m.Reps, &Rep{Shard: shard, Replica: uint64(rapid.IntRange(1, 5).Draw(t, "replica")), First: 1})
		}
		return m
	}
	pool := []uint64{1, 2, 3, 17, 18, 33, 34, 49, 65, 19}
	for i := 0; i < n; i++ {
		var shard uint64
		for {
			shard = rapid.SampledFrom(pool).Draw(t, "shard")
			if !used[shard] {
				break
			}
		}
		used[shard] = true
		m.Reps = append(m.Reps, &Rep{Shard: shard, Replica: uint64(rapid.IntRange(1, 5).Draw(t, "replica")), First: 1})
	}
	return m
}

// cmdLevel: 0 commands up to 600 bytes, 1 also 2-5 KB, 2 also (rarely) 33-45 KB,
// larger than tan's 32 KiB record block.
func genEntries(start uint64, n int, term uint64, bumpAt int, seed uint64, cmdLevel int) []pb.Entry {
	ents := make([]pb.Entry, 0, n)
	for i := 0; i < n; i++ {
		idx := start + uint64(i)
		h := splitmix(seed ^ idx*0x100000001b3)
		tm := term
		if bumpAt >= 0 && i >= bumpAt {
			tm = term + 1
		}
		e := pb.Entry{Index: idx, Term: tm}
		switch h % 16 {
		case 0:
			e.Type = pb.ConfigChangeEntry
		case 1:
			e.Type = pb.EncodedEntry
		}
		e.Key = (h >> 8) % 1000
		if h%3 == 0 {
			e.ClientID = (h >> 20) % 100000
			e.SeriesID = (h >> 40) % 50
			e.RespondedTo = (h >> 45) % 50
		}
		var l int
		switch c := (h >> 4) % 32; {
		case c < 6:
			l = 0
		case c < 26:
			l = 1 + int((h>>12)%24)
		case c < 31 || cmdLevel == 0:
			l = 100 + int((h>>12)%500)
		case cmdLevel >= 2 && (h>>9)%8 == 0:
			l = 33000 + int((h>>12)%12000)
		default:
			l = 2000 + int((h>>12)%3000)
		}
		if l > 0 {
			e.Cmd = make([]byte, l)
			x := h
			for j := range e.Cmd {
				x = splitmix(x)
				e.Cmd[j] = byte(x)
			}
		}
		ents = append(ents, e)
	}
	return ents
}

func genSnapshot(t *rapid.T, shard, index, term uint64, imported bool) pb.Snapshot {
	seed := rapid.Uint64().Draw(t, "ssseed")
	ss := pb.Snapshot{
		Index:    index,
		Term:     term,
		ShardID:  shard,
		Filepath: fmt.Sprintf("/data/snapshot-%016X/snapshot-%016X.gbsnap", index, index),
		FileSize: 1 + seed%100000,
		Type:     pb.StateMachineType(1 + seed%3),
		Imported: imported,
		Membership: pb.Membership{
			ConfigChangeId: seed % 7,
			Addresses:      map[uint64]string{1: "a1", 2: "a2", 3 + seed%3: "ax"},
		},
	}
	if seed%4 != 0 {
		ss.Checksum = []byte{byte(seed >> 8), byte(seed >> 16), byte(seed >> 24), byte(seed >> 32)}
	}
	if ss.Type == pb.OnDiskStateMachine {
		ss.OnDiskIndex = index
	}
	return ss
}

func maxU(a, b uint64) uint64 {
	if a > b {
		return a
	}
	return b
}

func minI(a, b int) int {
	if a < b {
		return a
	}
	return b
}

// genCount draws a number of entries to write starting at index start, with a
// bias towards ending around a multiple of the batch size.
func genCount(t *rapid.T, start uint64, bs uint64, budget int) int {
	var n int
	switch mode := rapid.IntRange(0, 9).Draw(t, "nmode"); {
	case mode <= 4:
		n = rapid.IntRange(1, 5).Draw(t, "n")
	case mode <= 7:
		next := (start/bs + 1) * bs // first multiple above start
		target := int64(next) + int64(rapid.IntRange(-2, 1).Draw(t, "nb"))
		n = int(target - int64(start) + 1)
		if rapid.IntRange(0, 3).Draw(t, "nb2") == 0 {
			n += int(bs)
		}
	case mode == 8:
		n = int(bs) + rapid.IntRange(0, int(bs)+2).Draw(t, "nbig")
	default:
		n = 1
	}
	if n > 110 {
		n = 110
	}
	if n > budget {
		n = budget
	}
	if n < 1 {
		n = 1
	}
	return n
}

// genRestoreIndex draws the index of a restore-type snapshot (> commit).
func genRestoreIndex(t *rapid.T, r *Rep, bs uint64) uint64 {
	commit := maxU(r.Commit(), r.Snap.Index)
	mode := rapid.IntRange(0, 5).Draw(t, "simode")
	switch {
	case mode <= 1 && r.Last > commit:
		// inside the log: commit < si <= last
		return commit + 1 + uint64(rapid.IntRange(0, int(r.Last-commit-1)).Draw(t, "siin"))
	case mode <= 3:
		base := maxU(r.Last, commit)
		next := (base/bs + 1) * bs
		si := int64(next) + int64(rapid.IntRange(-2, 1).Draw(t, "sib"))
		if si <= int64(commit) {
			si = int64(commit) + 1
		}
		return uint64(si)
	default:
		return maxU(r.Last, commit) + uint64(rapid.IntRange(1, 5).Draw(t, "siabove"))
	}
}

func (m *Model) live() []int {
	var out []int
	for i, r := range m.Reps {
		if !r.Removed {
			out = append(out, i)
		}
	}
	return out
}

// genUpdate draws one Update for replica r.
func genUpdate(t *rapid.T, m *Model, r *Rep, tr Traits, cfg *GenCfg, labels *[]string) pb.Update {
	bs := tr.BatchSz
	u := pb.Update{ShardID: r.Shard, ReplicaID: r.Replica}
	budget := cfg.MaxEntries - r.Written
	lo := maxU(r.Commit(), r.Marker)
	if len(r.Log) > 0 && r.First > lo+1 {
		lo = r.First - 1
	}
	canAppend := budget > 0
	canOverwrite := canAppend && len(r.Log) > 0 && r.Last > lo
	kinds := []string{"state", "state", "restore"}
	if canAppend {
		kinds = append(kinds, "append", "append", "append", "append", "append", "append", "append", "append")
	}
	if canOverwrite {
		kinds = append(kinds, "overwrite", "overwrite", "overwrite", "overwrite")
	}
	kind := rapid.SampledFrom(kinds).Draw(t, "ukind")
	seed := rapid.Uint64().Draw(t, "eseed")
	term := maxU(r.Term, 1)
	if r.Removed {
		term = r.Term + 1
		*labels = append(*labels, "new-life")
	}
	lastAfter := r.Last
	minCommit := r.Commit()
	stateTerm := term
	switch kind {
	case "append":
		start := r.Last + 1
		n := genCount(t, start, bs, budget)
		bump := -1
		if rapid.IntRange(0, 5).Draw(t, "bump") == 0 {
			bump = rapid.IntRange(0, n-1).Draw(t, "bumpat")
			stateTerm = term + 1
		}
		u.EntriesToSave = genEntries(start, n, term, bump, seed, cfg.cmdLevel())
		lastAfter = start + uint64(n) - 1
		*labels = append(*labels, "append")
	case "overwrite":
		span := int(r.Last - lo) // candidates lo+1..Last
		var d int
		if rapid.IntRange(0, 9).Draw(t, "owmode") < 6 {
			d = rapid.IntRange(0, minI(4, span-1)).Draw(t, "owd")
		} else {
			d = rapid.IntRange(0, span-1).Draw(t, "owd")
		}
		f := r.Last - uint64(d)
		old := d + 1
		var n int
		switch mode := rapid.IntRange(0, 9).Draw(t, "owlen"); {
		case mode < 5 && old > 1:
			n = rapid.IntRange(1, old-1).Draw(t, "own")
		case mode < 7:
			n = old
		default:
			n = old + genCount(t, r.Last+1, bs, budget)
		}
		if n > budget {
			n = budget
		}
		if n < 1 {
			n = 1
		}
		if n < old {
			*labels = append(*labels, "overwrite-shorter")
		}
		term++
		stateTerm = term
		u.EntriesToSave = genEntries(f, n, term, -1, seed, cfg.cmdLevel())
		lastAfter = f + uint64(n) - 1
		*labels = append(*labels, "overwrite")
		if f/bs != r.Last/bs {
			*labels = append(*labels, "overwrite-across-batch")
		}
	case "restore":
		si := genRestoreIndex(t, r, bs)
		if r.Removed && r.GoneLast > 1 {
			// a new life that starts from a snapshot: below or above the end of the
			// removed life
			if rapid.IntRange(0, 1).Draw(t, "nlsi") == 0 {
				si = 1 + uint64(rapid.IntRange(0, int(r.GoneLast-2)).Draw(t, "nlbelow"))
				*labels = append(*labels, "new-life-snapshot-below-old-end")
			} else {
				si = r.GoneLast + uint64(rapid.IntRange(1, 10).Draw(t, "nlabove"))
			}
		}
		sterm := term
		if si <= r.Last {
			// a restore inside the log only happens when the term at si differs
			sterm = term + 1
		} else if rapid.IntRange(0, 2).Draw(t, "ssterm") == 0 {
			sterm = term + 1
		}
		withEntries := canAppend && rapid.IntRange(0, 3).Draw(t, "ssents") == 0
		if tr.Tan && si < r.Last && !withEntries {
			// shape of known finding S3
			if cfg.AllowS3 != nil && cfg.AllowS3(t) {
				*labels = append(*labels, "s3-shape")
			} else {
				cfg.count("excluded-" + SigS3)
				if canAppend {
					withEntries = true
				} else {
					si = r.Last
				}
			}
		}
		u.Snapshot = genSnapshot(t, r.Shard, si, sterm, false)
		stateTerm = sterm
		minCommit = si
		lastAfter = si
		if si < r.Last {
			*labels = append(*labels, "restore-snap-below-last")
		} else if si == r.Last {
			*labels = append(*labels, "restore-snap-at-last")
		} else {
			*labels = append(*labels, "restore-snap-above-last")
		}
		if withEntries {
			n := genCount(t, si+1, bs, budget)
			u.EntriesToSave = genEntries(si+1, n, sterm, -1, seed, cfg.cmdLevel())
			lastAfter = si + uint64(n)
			*labels = append(*labels, "restore-snap-with-entries")
		}
		*labels = append(*labels, "restore-snap")
	case "state":
		*labels = append(*labels, "state-only")
	}
	if n := len(u.EntriesToSave); cfg.GiantOneIn > 0 && n > 0 &&
		rapid.IntRange(0, cfg.GiantOneIn-1).Draw(t, "giant") == 0 {
		k := rapid.IntRange(0, n-1).Draw(t, "giantat")
		sz := rapid.IntRange(40000, 120000).Draw(t, "giantsz")
		cmd := make([]byte, sz)
		x := seed
		for j := 0; j < sz; j += 8 {
			x = splitmix(x)
			for b := 0; b < 8 && j+b < sz; b++ {
				cmd[j+b] = byte(x >> (8 * b))
			}
		}
		u.EntriesToSave[k].Cmd = cmd
		*labels = append(*labels, "giant-command")
	}
	withState := !r.HasState || kind == "state" || kind == "restore" || stateTerm != r.State.Term ||
		rapid.IntRange(0, 9).Draw(t, "withstate") < 6
	if withState {
		st := pb.State{Term: stateTerm, Vote: r.State.Vote, Commit: minCommit}
		if kind == "state" || rapid.IntRange(0, 3).Draw(t, "votechg") == 0 {
			switch rapid.IntRange(0, 2).Draw(t, "stchg") {
			case 0:
				st.Term = stateTerm + 1
				st.Vote = uint64(rapid.IntRange(0, 3).Draw(t, "vote"))
			case 1:
				st.Vote = uint64(rapid.IntRange(0, 3).Draw(t, "vote"))
			}
		}
		if lastAfter > minCommit {
			switch rapid.IntRange(0, 3).Draw(t, "commitmode") {
			case 0:
			case 1:
				st.Commit = lastAfter
			default:
				st.Commit = minCommit + uint64(rapid.IntRange(0, int(lastAfter-minCommit)).Draw(t, "commit"))
			}
		}
		if kind == "overwrite" && st.Commit < r.Commit() {
			st.Commit = r.Commit()
		}
		if cfg.NoCommitOnly && r.HasState && len(u.EntriesToSave) == 0 && u.Snapshot.Index == 0 &&
			st.Term == r.State.Term && st.Vote == r.State.Vote && st.Commit != r.State.Commit {
			st.Term++
		}
		u.State = st
	}
	return u
}

var opWeights = []struct {
	k OpKind
	w int
}{
	{OpSave, 50}, {OpSaveSnapshots, 9}, {OpRemoveEntries, 7}, {OpCompact, 3}, {OpRemoveNode, 3},
	{OpImport, 2}, {OpBootstrap, 4}, {OpReopen, 12}, {OpQuery, 20},
}

var opKindTable = func() []OpKind {
	var out []OpKind
	for _, w := range opWeights {
		for i := 0; i < w.w; i++ {
			out = append(out, w.k)
		}
	}
	return out
}()

func (c *GenCfg) table() []OpKind {
	if len(c.Weights) == 0 {
		return opKindTable
	}
	var out []OpKind
	for _, w := range opWeights {
		n := w.w
		if v, ok := c.Weights[w.k]; ok {
			n = v
		}
		for i := 0; i < n; i++ {
			out = append(out, w.k)
		}
	}
	return out
}

func (c *GenCfg) allowed(k OpKind) bool {
	switch k {
	case OpCompact:
		return !c.NoCompact
	case OpRemoveNode:
		return !c.NoRemoveNode
	case OpImport:
		return !c.NoImport
	case OpQuery:
		return !c.NoQuery
	case OpReopen:
		return !c.NoReopen
	case OpBootstrap:
		return !c.NoBootstrap
	case OpRemoveEntries:
		return !c.NoRemoveEntries
	}
	return true
}

// GenSave draws a SaveRaftState call touching primary and possibly other live
// replicas of the same worker partition.
func GenSave(t *rapid.T, m *Model, tr Traits, cfg *GenCfg, primary int) Op {
	o := Op{Kind: OpSave}
	p := m.Reps[primary]
	o.Worker = p.Shard%ExecShards + 1
	group := []int{primary}
	for _, i := range m.live() {
		if i != primary && m.Reps[i].Shard%ExecShards == p.Shard%ExecShards &&
			rapid.IntRange(0, 1).Draw(t, "also") == 0 {
			group = append(group, i)
		}
	}
	if len(group) > 1 {
		o.Labels = append(o.Labels, "multi-replica-batch")
	}
	for _, i := range group {
		o.Updates = append(o.Updates, genUpdate(t, m, m.Reps[i], tr, cfg, &o.Labels))
	}
	return o
}

// GenQuery draws an IterateEntries call for replica idx (which must have
// entries above its marker).
func GenQuery(t *rapid.T, m *Model, tr Traits, idx int) Op {
	r := m.Reps[idx]
	bs := tr.BatchSz
	lowMin := maxU(r.Marker+1, r.First)
	o := Op{Kind: OpQuery, Rep: idx}
	span := int(r.Last - lowMin) // low in lowMin..Last
	switch rapid.IntRange(0, 3).Draw(t, "qlow") {
	case 0:
		o.Low = lowMin
	case 1:
		// just below a batch boundary
		b := (lowMin/bs + 1) * bs
		if b <= r.Last && b >= lowMin+1 {
			o.Low = b - uint64(rapid.IntRange(0, minI(2, int(b-lowMin))).Draw(t, "qlb"))
		} else {
			o.Low = lowMin + uint64(rapid.IntRange(0, span).Draw(t, "qlr"))
		}
	default:
		o.Low = lowMin + uint64(rapid.IntRange(0, span).Draw(t, "qlr"))
	}
	hspan := int(r.Last + 1 - (o.Low + 1)) // high in low+1..Last+1
	switch rapid.IntRange(0, 3).Draw(t, "qhigh") {
	case 0:
		o.High = r.Last + 1
	case 1:
		o.High = o.Low + 1
	default:
		o.High = o.Low + 1 + uint64(rapid.IntRange(0, hspan).Draw(t, "qhr"))
	}
	switch rapid.IntRange(0, 5).Draw(t, "qmax") {
	case 0:
		o.Max = math.MaxUint64
	case 1:
		o.Max = 0
	case 2, 3:
		// exactly the size of the first k entries, or one off
		k := rapid.IntRange(1, int(o.High-o.Low)).Draw(t, "qk")
		sum := uint64(0)
		for i := 0; i < k; i++ {
			sum += EntrySize(r.Entry(o.Low + uint64(i)))
		}
		o.Max = uint64(int64(sum) + int64(rapid.IntRange(-1, 1).Draw(t, "qoff")))
	default:
		o.Max = uint64(rapid.IntRange(1, 4000).Draw(t, "qsz"))
	}
	return o
}

// GenOp draws the next store call given the current model.
func GenOp(t *rapid.T, m *Model, tr Traits, cfg *GenCfg) Op {
	live := m.live()
	table := cfg.table()
	for attempt := 0; attempt < 8; attempt++ {
		k := rapid.SampledFrom(table).Draw(t, "op")
		if !cfg.allowed(k) {
			continue
		}
		switch k {
		case OpSave:
			if cfg.NewLife {
				var gone []int
				for i, r := range m.Reps {
					if !r.Removed {
						continue
					}
					// (finding S12 - Pebble's caches described the removed life until the store
					// was reopened - is fixed in /repo: a new life may start in the same process)
					gone = append(gone, i)
				}
				if len(gone) > 0 && rapid.IntRange(0, 2).Draw(t, "newlife") == 0 {
					return GenSave(t, m, tr, cfg, rapid.SampledFrom(gone).Draw(t, "rep"))
				}
			}
			if len(live) == 0 {
				continue
			}
			return GenSave(t, m, tr, cfg, rapid.SampledFrom(live).Draw(t, "rep"))
		case OpSaveSnapshots:
			var cand []int
			for _, i := range live {
				r := m.Reps[i]
				if r.HasState && r.Commit() > r.Snap.Index {
					cand = append(cand, i)
				}
			}
			if len(cand) == 0 {
				continue
			}
			i := rapid.SampledFrom(cand).Draw(t, "rep")
			r := m.Reps[i]
			o := Op{Kind: OpSaveSnapshots, Rep: i}
			var si uint64
			if r.Snap.Index > 1 && rapid.IntRange(0, 9).Draw(t, "stale") == 0 {
				// an out-of-date local snapshot (strictly older than the newest
				// record; the same index is never saved twice with different content)
				si = 1 + uint64(rapid.IntRange(0, int(r.Snap.Index-2)).Draw(t, "ssi"))
				o.Labels = append(o.Labels, "stale-snapshot")
			} else {
				switch rapid.IntRange(0, 2).Draw(t, "ssmode") {
				case 0:
					si = r.Commit()
				default:
					si = r.Snap.Index + 1 + uint64(rapid.IntRange(0, int(r.Commit()-r.Snap.Index-1)).Draw(t, "ssi"))
				}
				o.Labels = append(o.Labels, "local-snap")
				if si < r.Last {
					o.Labels = append(o.Labels, "local-snap-below-last")
				}
			}
			term := r.TermAt(si)
			if term == 0 {
				term = maxU(1, r.Snap.Term)
			}
			o.Updates = []pb.Update{{ShardID: r.Shard, ReplicaID: r.Replica,
				Snapshot: genSnapshot(t, r.Shard, si, term, false)}}
			return o
		case OpRemoveEntries:
			var cand []int
			for _, i := range live {
				if m.Reps[i].Snap.Index > 0 {
					cand = append(cand, i)
				}
			}
			if len(cand) == 0 {
				continue
			}
			i := rapid.SampledFrom(cand).Draw(t, "rep")
			r := m.Reps[i]
			o := Op{Kind: OpRemoveEntries, Rep: i, Labels: []string{"remove-entries"}}
			if rapid.IntRange(0, 2).Draw(t, "remode") == 0 {
				o.Index = r.Snap.Index
			} else {
				o.Index = 1 + uint64(rapid.IntRange(0, int(r.Snap.Index-1)).Draw(t, "rei"))
			}
			return o
		case OpCompact:
			var cand []int
			for i, r := range m.Reps {
				if r.Marker > 0 || r.Removed {
					cand = append(cand, i)
				}
			}
			if len(cand) == 0 {
				continue
			}
			i := rapid.SampledFrom(cand).Draw(t, "rep")
			o := Op{Kind: OpCompact, Rep: i, Index: m.Reps[i].Marker, Labels: []string{"compact"}}
			if m.Reps[i].Removed {
				// NodeHost.RequestCompaction on a removed node
				o.Index = math.MaxUint64
			}
			return o
		case OpRemoveNode, OpImport:
			if len(live) == 0 || (k == OpRemoveNode && len(live) < 2) {
				continue
			}
			i := rapid.SampledFrom(live).Draw(t, "rep")
			r := m.Reps[i]
			if v := m.S2Victims(i, k == OpImport, tr); len(v) > 0 {
				if cfg.AllowS2 == nil || !cfg.AllowS2(t) {
					cfg.count("excluded-" + SigS2)
					continue
				}
			}
			if k == OpRemoveNode {
				return Op{Kind: OpRemoveNode, Rep: i, Labels: []string{"remove-node"}}
			}
			o := Op{Kind: OpImport, Rep: i, Labels: []string{"import"}}
			bs := tr.BatchSz
			var si uint64
			switch rapid.IntRange(0, 3).Draw(t, "immode") {
			case 0:
				si = r.Last + uint64(rapid.IntRange(0, 3).Draw(t, "imi"))
			case 1:
				si = 1 + uint64(rapid.IntRange(0, int(r.Last)).Draw(t, "imi"))
				if si < r.Last {
					o.Labels = append(o.Labels, "import-below-last")
				}
			default:
				next := (r.Last/bs + 1) * bs
				si = uint64(int64(next) + int64(rapid.IntRange(-2, 1).Draw(t, "imb")))
			}
			if si == 0 {
				si = 1
			}
			term := maxU(1, r.Term)
			if term > 1 && rapid.IntRange(0, 2).Draw(t, "imt") == 0 {
				term--
			}
			o.Snap = genSnapshot(t, r.Shard, si, term, true)
			return o
		case OpBootstrap:
			var cand []int
			for _, i := range live {
				if m.Reps[i].Boot == nil {
					cand = append(cand, i)
				}
			}
			if len(cand) == 0 {
				continue
			}
			i := rapid.SampledFrom(cand).Draw(t, "rep")
			o := Op{Kind: OpBootstrap, Rep: i, Labels: []string{"bootstrap"}}
			n := rapid.IntRange(0, 3).Draw(t, "bsn")
			o.Boot = pb.Bootstrap{Join: n == 0, Type: pb.StateMachineType(rapid.IntRange(1, 3).Draw(t, "bstype"))}
			if n > 0 {
				o.Boot.Addresses = make(map[uint64]string)
				for j := 1; j <= n; j++ {
					o.Boot.Addresses[uint64(j)] = fmt.Sprintf("addr%d:%d", j, 1000+j)
				}
			}
			return o
		case OpReopen:
			return Op{Kind: OpReopen, Labels: []string{"reopen"}}
		case OpQuery:
			var cand []int
			for i, r := range m.Reps {
				if len(r.Log) > 0 && r.Last >= maxU(r.Marker+1, r.First) {
					cand = append(cand, i)
				}
			}
			if len(cand) == 0 {
				continue
			}
			return GenQuery(t, m, tr, rapid.SampledFrom(cand).Draw(t, "rep"))
		}
	}
	if len(live) > 0 {
		return GenSave(t, m, tr, cfg, live[0])
	}
	return Op{Kind: OpReopen, Labels: []string{"reopen"}}
}
