package logstore

import (
	"testing"

	"github.com/lni/vfs"

	"github.com/lni/dragonboat/v4/internal/vfhelp"
	"github.com/lni/dragonboat/v4/raftio"
	pb "github.com/lni/dragonboat/v4/raftpb"
)

func mkEntries(first, last, term uint64) []pb.Entry {
	var out []pb.Entry
	for i := first; i <= last; i++ {
		out = append(out, pb.Entry{Index: i, Term: term, Cmd: []byte{byte(i), byte(term)}})
	}
	return out
}

func mustOpen(t *testing.T, fs vfs.FS, open Opener) raftio.ILogDB {
	db, err := open(fs)
	if err != nil {
		t.Fatalf("open: %v", err)
	}
	return db
}

func must(t *testing.T, err error) {
	t.Helper()
	if err != nil {
		t.Fatalf("unexpected error: %v", err)
	}
}

// TestVF_C09_ReproS2 is the minimal reproduction of known finding S2, without
// rapid: two shards (1 and 17, congruent mod 16) share one multiplexed tan db;
// removing the node data of shard 17 destroys the saved log of shard 1.
func TestVF_C09_ReproS2(t *testing.T) {
	st := vfhelp.NewStats("TestVF_C09_ReproS2", "fixed reproduction of S2 (multiplexed tan RemoveNodeData)")
	defer st.Flush()
	fs := vfs.NewStrictMem()
	open := tanOpener(true)
	db := mustOpen(t, fs, open)
	must(t, db.SaveRaftState([]pb.Update{
		{ShardID: 1, ReplicaID: 1, State: pb.State{Term: 1, Commit: 3}, EntriesToSave: mkEntries(1, 10, 1)},
		{ShardID: 17, ReplicaID: 1, State: pb.State{Term: 1, Commit: 1}, EntriesToSave: mkEntries(1, 4, 1)},
	}, 2))
	must(t, db.Close())
	db = mustOpen(t, fs, open) // every open starts a new log file; the data above now lives in an older one
	must(t, db.RemoveNodeData(17, 1))
	must(t, db.Close())
	db = mustOpen(t, fs, open)
	defer db.Close()
	rs, err := db.ReadRaftState(1, 1, 0)
	t.Logf("after RemoveNodeData(17,1): ReadRaftState(1,1,0) = %+v, err %v", rs, err)
	ok := err == nil && rs.FirstIndex == 1 && rs.EntryCount == 10 && rs.State.Term == 1 && rs.State.Commit == 3
	if ok {
		ents, _, err := db.IterateEntries(nil, 0, 1, 1, 1, 11, 1<<40)
		ok = err == nil && len(ents) == 10
	}
	st.Case([]byte("s2"), true, "repro")
	if !ok {
		st.Known(t, SigS2, "shard 1 saved state{t1 c3} and entries 1..10; after RemoveNodeData(17,1) on the shared "+
			"multiplexed tan db and a reopen, ReadRaftState(1,1,0) = %+v, err %v", rs, err)
	}
}

// TestVF_C09_ReproS3 is the minimal reproduction of known finding S3: the same
// two SaveRaftState calls on sharded Pebble and on tan; after the restore-type
// snapshot at index 5 Pebble reports an empty log above 5, tan still reports
// the overwritten entries 6..10.
func TestVF_C09_ReproS3(t *testing.T) {
	st := vfhelp.NewStats("TestVF_C09_ReproS3", "fixed reproduction of S3 (tan restore-type snapshot)")
	defer st.Flush()
	run := func(open Opener) raftio.RaftState {
		fs := vfs.NewStrictMem()
		db := mustOpen(t, fs, open)
		must(t, db.SaveRaftState([]pb.Update{
			{ShardID: 1, ReplicaID: 1, State: pb.State{Term: 1, Commit: 3}, EntriesToSave: mkEntries(1, 10, 1)},
		}, 2))
		// raft.restore(): the leader's snapshot at 5 (term 2) does not match the
		// local entry 5 (term 1): the in-memory log is reset and the Update
		// carries the snapshot record, the new state and no entries
		must(t, db.SaveRaftState([]pb.Update{
			{ShardID: 1, ReplicaID: 1, State: pb.State{Term: 2, Commit: 5},
				Snapshot: pb.Snapshot{Index: 5, Term: 2, ShardID: 1, Type: pb.RegularStateMachine}},
		}, 2))
		must(t, db.Close())
		db = mustOpen(t, fs, open)
		defer db.Close()
		ss, err := db.GetSnapshot(1, 1)
		must(t, err)
		if ss.Index != 5 {
			t.Fatalf("snapshot index %d", ss.Index)
		}
		rs, err := db.ReadRaftState(1, 1, ss.Index)
		must(t, err)
		return rs
	}
	p := run(pebbleOpener(false, nil))
	tn := run(tanOpener(false))
	t.Logf("pebble: first %d count %d; tan: first %d count %d", p.FirstIndex, p.EntryCount, tn.FirstIndex, tn.EntryCount)
	if p.EntryCount != 0 {
		vfhelp.Fail(t, "pebble-plain-raftstate-entry-past-logical-end", "pebble reports %+v", p)
	}
	st.Case([]byte("s3"), true, "repro")
	if tn.EntryCount != 0 {
		st.Known(t, SigS3, "log 1..10 (term 1), then SaveRaftState with restore-type snapshot {index 5, term 2}: "+
			"tan ReadRaftState(5) = first %d count %d (entries 6..10 of the discarded log), pebble = first %d count %d",
			tn.FirstIndex, tn.EntryCount, p.FirstIndex, p.EntryCount)
	}
}

// TestVF_C09_ReproS12 is the minimal reproduction of finding S12 (fixed in /repo): sharded
// Pebble keeps its per-node caches across RemoveNodeData, so the first saves of
// a new life of that replica in the same process are filtered against the
// removed life. (Not reachable through NodeHost, which refuses to restart a
// removed replica; it is why the generator starts a new life on Pebble only
// after a reopen.)
func TestVF_C09_ReproS12(t *testing.T) {
	st := vfhelp.NewStats("TestVF_C09_ReproS12", "fixed reproduction of S12 (Pebble caches survive RemoveNodeData)")
	defer st.Flush()
	fs := vfs.NewStrictMem()
	db := mustOpen(t, fs, pebbleOpener(false, nil))
	defer db.Close()
	ss := pb.Snapshot{Index: 5, Term: 1, ShardID: 1, Type: pb.RegularStateMachine}
	must(t, db.SaveRaftState([]pb.Update{
		{ShardID: 1, ReplicaID: 1, State: pb.State{Term: 1, Commit: 5}, EntriesToSave: mkEntries(1, 10, 1)},
	}, 2))
	must(t, db.SaveSnapshots([]pb.Update{{ShardID: 1, ReplicaID: 1, Snapshot: ss}}))
	must(t, db.RemoveNodeData(1, 1))
	// new life: the same hard state and a snapshot record at the same index
	ss2 := pb.Snapshot{Index: 5, Term: 1, ShardID: 1, Type: pb.RegularStateMachine, Filepath: "new-life"}
	must(t, db.SaveRaftState([]pb.Update{
		{ShardID: 1, ReplicaID: 1, State: pb.State{Term: 1, Commit: 5}, Snapshot: ss2},
	}, 2))
	got, err := db.GetSnapshot(1, 1)
	must(t, err)
	rs, rerr := db.ReadRaftState(1, 1, got.Index)
	t.Logf("after RemoveNodeData + new life: GetSnapshot index %d path %q; ReadRaftState %+v, err %v", got.Index, got.Filepath, rs, rerr)
	st.Case([]byte("s12"), true, "repro")
	if got.Index != 5 || rerr != nil || rs.State.Term != 1 {
		st.Known(t, SigS12, "RemoveNodeData(1,1), then SaveRaftState{state{t1,c5}, snapshot{5}} returned nil; GetSnapshot index %d "+
			"(want 5), ReadRaftState = %+v, %v (want state{t1,c5})", got.Index, rs, rerr)
	}
}
