package logstore

import (
	"fmt"

	"github.com/lni/vfs"

	"github.com/lni/dragonboat/v4/raftio"
	pb "github.com/lni/dragonboat/v4/raftpb"
)

// Store is an open store together with what is needed to reopen it.
type Store struct {
	DB   raftio.ILogDB
	FS   vfs.FS
	Open Opener
}

// OpenStore opens the store on fs.
func OpenStore(fs vfs.FS, open Opener) (*Store, error) {
	db, err := open(fs)
	if err != nil {
		return nil, err
	}
	return &Store{DB: db, FS: fs, Open: open}, nil
}

// Reopen closes and opens the store again.
func (s *Store) Reopen() error {
	if s.DB != nil {
		if err := s.DB.Close(); err != nil {
			s.DB = nil
			return fmt.Errorf("close: %w", err)
		}
		s.DB = nil
	}
	db, err := s.Open(s.FS)
	if err != nil {
		return fmt.Errorf("open: %w", err)
	}
	s.DB = db
	return nil
}

// Close closes the store.
func (s *Store) Close() error {
	if s.DB == nil {
		return nil
	}
	db := s.DB
	s.DB = nil
	return db.Close()
}

func cloneUpdates(us []pb.Update) []pb.Update {
	out := make([]pb.Update, len(us))
	for i, u := range us {
		out[i] = u
		out[i].EntriesToSave = append([]pb.Entry(nil), u.EntriesToSave...)
	}
	return out
}

// Exec performs the call on the store. The model is consulted only for the
// identity of the addressed replica.
func (s *Store) Exec(o Op, m *Model) error {
	switch o.Kind {
	case OpSave:
		return s.DB.SaveRaftState(cloneUpdates(o.Updates), o.Worker)
	case OpSaveSnapshots:
		return s.DB.SaveSnapshots(cloneUpdates(o.Updates))
	case OpRemoveEntries:
		r := m.Reps[o.Rep]
		return s.DB.RemoveEntriesTo(r.Shard, r.Replica, o.Index)
	case OpCompact:
		r := m.Reps[o.Rep]
		done, err := s.DB.CompactEntriesTo(r.Shard, r.Replica, o.Index)
		if err != nil {
			return err
		}
		<-done
		return nil
	case OpRemoveNode:
		r := m.Reps[o.Rep]
		return s.DB.RemoveNodeData(r.Shard, r.Replica)
	case OpImport:
		// tools.ImportSnapshot opens the store, imports and closes it
		r := m.Reps[o.Rep]
		if err := s.Reopen(); err != nil {
			return err
		}
		if err := s.DB.ImportSnapshot(o.Snap, r.Replica); err != nil {
			return err
		}
		return s.Reopen()
	case OpBootstrap:
		r := m.Reps[o.Rep]
		return s.DB.SaveBootstrapInfo(r.Shard, r.Replica, o.Boot)
	case OpReopen:
		return s.Reopen()
	case OpQuery:
		return nil
	}
	return fmt.Errorf("unknown op %d", o.Kind)
}

// ExecSafe is Exec with panics of the code under test converted to errors;
// panicked reports that the error is a recovered panic.
func (s *Store) ExecSafe(o Op, m *Model) (err error, panicked bool) {
	defer func() {
		if p := recover(); p != nil {
			err = fmt.Errorf("panic: %v", p)
			panicked = true
		}
	}()
	return s.Exec(o, m), false
}
