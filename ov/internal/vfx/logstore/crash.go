package logstore

import (
	"fmt"
	"sort"
	"strings"

	"github.com/lni/vfs"
	"pgregory.net/rapid"

	"github.com/lni/dragonboat/v4/internal/vfhelp"
	pb "github.com/lni/dragonboat/v4/raftpb"
)

// C10CrashRule is the generation / non-triviality rule of the crash units.
const C10CrashRule = "generated workload of 5-25 store calls (as in C09, known-finding shapes excluded) run once on a counting " +
	"FS to learn the number T of state-changing FS operations (create, write, sync, dir-sync, rename, remove, mkdir, lock), then " +
	"re-run from scratch for each chosen crash point k: strict MemFS stops honouring syncs at operation k, the in-flight call " +
	"returns, store closed, unsynced state dropped, store reopened and compared per replica with the model of the acknowledged " +
	"calls or (replicas touched by the interrupted call) acknowledged+interrupted; then two more appends per replica and another " +
	"reopen. quick: sync/rename neighbours and every ceil(T/40)-th point (capped); thorough: every k in 1..T+1 plus torn-tail " +
	"variants. one evaluation = one (workload, crash point) pair; non-trivial = cut strictly inside a SaveRaftState whose update " +
	"changes >= 2 of {entries, state, snapshot}, or inside a call during which tan creates/renames/removes files"

// CrashCfg configures RunC10Crash.
type CrashCfg struct {
	Gen        GenCfg
	Exhaustive bool // all crash points + torn-tail variants
	MaxPoints  int  // cap on sampled crash points per workload (quick)
}

type workload struct {
	m0  *Model
	ops []Op
	// models[i] is the model after ops[0..i-1]; models[0] == m0
	models []*Model
}

func genWorkload(t *rapid.T, tr Traits, cfg *GenCfg) *workload {
	w := &workload{m0: GenModel(t, tr)}
	m := w.m0.Clone()
	w.models = append(w.models, m.Clone())
	n := rapid.IntRange(cfg.MinOps, cfg.MaxOps).Draw(t, "ncalls")
	for i := 0; i < n; i++ {
		o := GenOp(t, m, tr, cfg)
		m.Apply(o, tr)
		w.ops = append(w.ops, o)
		w.models = append(w.models, m.Clone())
	}
	return w
}

func (w *workload) render() []string {
	out := make([]string, 0, len(w.ops))
	for _, o := range w.ops {
		out = append(out, o.String())
	}
	return out
}

// components counts how many of {entries, state, snapshot} a SaveRaftState
// update changes for the replica.
func components(u pb.Update, r *Rep) int {
	n := 0
	if len(u.EntriesToSave) > 0 {
		n++
	}
	if !pb.IsEmptyState(u.State) && (!r.HasState || !pb.IsStateEqual(u.State, r.State)) {
		n++
	}
	if u.Snapshot.Index > 0 {
		n++
	}
	return n
}

type crashRun struct {
	t  *rapid.T
	st *vfhelp.Stats
	tr Traits
	w  *workload
	// hazards of the crash point being validated (see FSCtl.Hazards)
	hazards []string
	// desc describes the crash point being validated (cut operation, torn tail)
	desc string
	// secondCut: validate additionally cuts the power again right after the recovery
	secondCut bool
}

// knownAbort ends the validation of a crash point after a tolerated known
// finding.
type knownAbort struct{}

func (c *crashRun) fail(sig string, k int64, format string, args ...interface{}) {
	if c.tr.Tan && len(c.hazards) > 0 {
		// known finding S9: before the cut an index file became durable while its
		// log file had unsynced bytes
		if c.st.Known(c.t, SigS9, "[%s] crash point %d (index durable before log %v was synced; observed as %s): %s%s",
			c.tr.Name, k, c.hazards, sig, fmt.Sprintf(format, args...), history(c.w.render())) {
			panic(knownAbort{})
		}
	}
	vfhelp.Fail(c.t, c.tr.Name+"-"+sig, "[%s] crash point %d (%s): %s%s", c.tr.Name, k, c.desc,
		fmt.Sprintf(format, args...), history(c.w.render()))
}

// runTo executes the workload on a fresh FS with the power cut armed at
// operation k (0: never). It returns the FS, its control block, the number of
// calls that had returned when the cut fired (or all of them) and the index of
// the call in flight (-1 none).
func (c *crashRun) runTo(open Opener, k int64, trace bool) (*vfs.MemFS, *FSCtl, int, int, []int64) {
	mem := vfs.NewStrictMem()
	ctl := NewFSCtl(mem)
	if trace {
		ctl.Trace()
	}
	ctl.CutAt(k)
	fs := NewCtlFS(mem, ctl)
	ctl.SetPhase(-2) // initial open
	var bounds []int64
	s, err := OpenStore(fs, open)
	if err != nil {
		c.fail("open-error-without-fault", k, "initial open failed: %v", err)
	}
	ctl.SetPhase(-1)
	for i, o := range c.w.ops {
		bounds = append(bounds, ctl.Ops())
		// The cut may fire on any goroutine (the store's background workers issue
		// FS operations too). Which calls count as acknowledged is therefore
		// decided by the FS controller under the same lock that orders the cut:
		// a call that starts after the cut is never made, one that returns before
		// it is acknowledged, one that spans it is the call in flight.
		if !ctl.BeginCall(i) {
			break
		}
		err, _ := s.ExecSafe(o, c.w.models[i])
		ctl.EndCall()
		if cut, _, _ := ctl.Cut(); cut {
			break
		}
		if err != nil {
			_ = s.Close()
			c.fail("call-error-without-fault", k, "%s failed although no error was injected: %v", o.String(), err)
		}
	}
	bounds = append(bounds, ctl.Ops())
	// power goes off at the latest now
	ctl.ForceCut()
	func() {
		defer func() { _ = recover() }()
		_ = s.Close()
	}()
	done, inflight := ctl.CutState()
	fl := -1
	if inflight >= 0 {
		fl = int(inflight)
		if done != fl {
			panic(fmt.Sprintf("harness: %d calls returned before the cut but call %d was in flight", done, fl))
		}
	}
	return mem, ctl, done, fl, bounds
}

// candidates returns the models a replica may legally be found in after the
// crash: the acknowledged one and, when the interrupted call touches it, the
// one after that call.
func (c *crashRun) candidates(done, inflight int, rep int) []*Rep {
	acked := c.w.models[done]
	out := []*Rep{acked.Reps[rep].clone()}
	defer func() {
		for _, r := range out {
			r.LagOK = c.tr.Tan
		}
	}()
	if inflight >= 0 {
		o := c.w.ops[inflight]
		touched := false
		for _, i := range acked.Touched(o) {
			if i == rep {
				touched = true
			}
		}
		if touched {
			after := c.w.models[inflight+1].Reps[rep].clone()
			out = append(out, after)
			if o.Kind == OpImport {
				// tan writes the bootstrap record of an import separately from the
				// snapshot/state record
				mixed := acked.Reps[rep].clone()
				mixed.Boot = after.Boot
				out = append(out, mixed)
			}
		}
	}
	return out
}

// validate reopens the store after the power cycle and compares it with the
// models. It returns which replicas were found in the post-interrupted-call
// state.
func (c *crashRun) validate(open Opener, mem *vfs.MemFS, k int64, done, inflight int, hazards []string,
	labels map[string]bool) (ok bool) {
	c.hazards = hazards
	defer func() {
		c.hazards = nil
		if p := recover(); p != nil {
			if _, isKnown := p.(knownAbort); !isKnown {
				panic(p)
			}
			labels["ended-by-known-"+SigS9] = true
			ok = false
		}
	}()
	s, err := OpenStore(mem, open)
	if err != nil {
		c.fail("reopen-after-crash-error", k, "reopen failed: %v (acknowledged calls %d, in flight %d)", err, done, inflight)
	}
	defer func() { _ = s.Close() }()
	acked := c.w.models[done]
	chosen := acked.Clone()
	for i := range acked.Reps {
		cands := c.candidates(done, inflight, i)
		skip := false
		for _, r := range cands {
			if r.Removed {
				skip = true // RemoveNodeData is not a save: the removed replica is not validated
			}
		}
		if skip {
			labels["replica-removed-not-validated"] = true
			chosen.Reps[i].Removed = true
			continue
		}
		var first *Mismatch
		matched := -1
		for j, r := range cands {
			mis := CheckReplica(s.DB, r, c.tr)
			if mis == nil {
				matched = j
				break
			}
			if first == nil {
				first = mis
			}
		}
		if matched < 0 && c.tr.Tan && inflight >= 0 && c.w.ops[inflight].Kind == OpImport &&
			(c.w.ops[inflight].Rep == i || (c.tr.Mux && SameDB(acked.Reps[i], acked.Reps[c.w.ops[inflight].Rep]))) {
			if c.st.Known(c.t, SigS11, "[%s] crash point %d inside %s: %s%s", c.tr.Name, k, c.w.ops[inflight].String(),
				first.Msg, history(c.w.render())) {
				labels["ended-by-known-"+SigS11] = true
				return false
			}
		}
		if matched < 0 {
			what := "an acknowledged save is not readable"
			if len(cands) > 1 {
				what = "neither the acknowledged state nor acknowledged+interrupted call is readable (not all-or-nothing)"
			}
			c.fail("crash-"+first.Sig, k, "%s: acknowledged calls %d, in flight %d; versus acknowledged model: %s",
				what, done, inflight, first.Msg)
		}
		if matched > 0 {
			labels["interrupted-call-visible"] = true
			chosen.Reps[i] = cands[matched].clone()
		} else if len(cands) > 1 {
			labels["interrupted-call-absent"] = true
		}
	}
	if mis := CheckNodeList(s.DB, chosen, true); mis != nil {
		c.fail("crash-"+mis.Sig, k, "%s", mis.Msg)
	}
	if c.secondCut {
		// recovery itself must be crash safe: the power goes off again right after the
		// store has come back (nothing was written by a caller in between) and what was
		// readable after the first recovery - at least every acknowledged save - must
		// still be readable after the second one
		mem.SetIgnoreSyncs(true)
		func() {
			defer func() { _ = recover() }()
			_ = s.Close()
		}()
		mem.ResetToSyncedState()
		mem.SetIgnoreSyncs(false)
		labels["second-cut-right-after-recovery"] = true
		s, err = OpenStore(mem, open)
		if err != nil {
			c.fail("reopen-after-second-crash-error", k, "reopen after a second power cut right after recovery failed: %v (acknowledged calls %d, in flight %d)", err, done, inflight)
		}
		for i := range acked.Reps {
			if chosen.Reps[i].Removed {
				continue
			}
			var first *Mismatch
			matched := -1
			for j, r := range c.candidates(done, inflight, i) {
				mis := CheckReplica(s.DB, r, c.tr)
				if mis == nil {
					matched = j
					break
				}
				if first == nil {
					first = mis
				}
			}
			if matched < 0 {
				c.fail("second-crash-"+first.Sig, k, "after a second power cut right after the recovery from the first one an acknowledged save is not readable any more: acknowledged calls %d, in flight %d; versus acknowledged model: %s",
					done, inflight, first.Msg)
			}
			if matched > 0 {
				chosen.Reps[i] = c.candidates(done, inflight, i)[matched].clone()
			} else {
				chosen.Reps[i] = c.candidates(done, inflight, i)[0].clone()
			}
		}
	}
	// the recovered store must accept further writes: two appends per live
	// replica, grouped per worker, then another reopen
	for round := 0; round < 2; round++ {
		byWorker := map[uint64][]pb.Update{}
		for _, r := range chosen.Reps {
			if r.Removed {
				continue
			}
			term := maxU(r.Term, 1)
			u := pb.Update{ShardID: r.Shard, ReplicaID: r.Replica,
				State:         pb.State{Term: term, Vote: r.State.Vote, Commit: r.Commit()},
				EntriesToSave: genEntries(r.Last+1, 2, term, -1, uint64(k)+uint64(round), 0)}
			w := r.Shard%ExecShards + 1
			byWorker[w] = append(byWorker[w], u)
		}
		workers := make([]uint64, 0, len(byWorker))
		for w := range byWorker {
			workers = append(workers, w)
		}
		sort.Slice(workers, func(i, j int) bool { return workers[i] < workers[j] })
		for _, w := range workers {
			o := Op{Kind: OpSave, Worker: w, Updates: byWorker[w]}
			if err, _ := s.ExecSafe(o, chosen); err != nil {
				c.fail("write-after-recovery-error", k, "%s after recovery failed: %v", o.String(), err)
			}
			chosen.Apply(o, c.tr)
		}
		if round == 0 {
			if err := s.Reopen(); err != nil {
				c.fail("reopen-after-recovery-error", k, "second reopen failed: %v", err)
			}
			chosen.Apply(Op{Kind: OpReopen}, c.tr)
		}
		for _, r := range chosen.Reps {
			if r.Removed {
				continue
			}
			if mis := CheckReplica(s.DB, r, c.tr); mis != nil {
				c.fail("after-recovery-"+mis.Sig, k, "after recovery and %d further save round(s): %s", round+1, mis.Msg)
			}
		}
	}
	return true
}

// RunC10Crash is the body of one crash-enumeration case (one workload, many
// crash points).
func RunC10Crash(t *rapid.T, st *vfhelp.Stats, tr Traits, open Opener, cfg CrashCfg) {
	gen := cfg.Gen
	gen.NoQuery = true
	gen.Count = func(l string) { st.Count(l, 1) }
	c := &crashRun{t: t, st: st, tr: tr}
	c.w = genWorkload(t, tr, &gen)
	// phase 1: count operations, and make sure the workload itself is sound
	mem, ctl, done, _, bounds := c.runTo(open, 0, true)
	if done != len(c.w.ops) {
		t.Fatalf("phase 1 executed %d of %d calls", done, len(c.w.ops))
	}
	// operations after the last call returned belong to the harness' own
	// shutdown: the last crash point is total+1, "after the last call"
	total := bounds[len(bounds)-1]
	trace := ctl.TraceOps()
	if int64(len(trace)) > total {
		trace = trace[:total]
	}
	_ = mem // the phase 1 FS is dropped; crash point total+1 below re-runs the workload
	// choose crash points
	points := map[int64]bool{total + 1: true} // total+1: power cut after the last call returned
	if cfg.Exhaustive {
		for k := int64(1); k <= total; k++ {
			points[k] = true
		}
	} else {
		stride := (total + 39) / 40
		if stride < 1 {
			stride = 1
		}
		for k := int64(1); k <= total; k += stride {
			points[k] = true
		}
		var near []int64
		for i, op := range trace {
			k := int64(i + 1)
			if op == FSSync || op == FSDirSync || op == FSRename {
				near = append(near, k, k+1)
			}
		}
		budget := cfg.MaxPoints - len(points)
		if len(near) <= budget {
			for _, k := range near {
				points[k] = true
			}
		} else {
			// subsample, keeping pairs (k, k+1) together
			pairs := len(near) / 2
			for budget > 1 && pairs > 0 {
				p := rapid.IntRange(0, pairs-1).Draw(t, "point")
				points[near[2*p]] = true
				points[near[2*p+1]] = true
				budget -= 2
			}
		}
	}
	ks := make([]int64, 0, len(points))
	for k := range points {
		if k < 1 || k > total+1 {
			continue
		}
		if !cfg.Exhaustive && len(bounds) > 0 && k <= bounds[0] && k%8 != 0 {
			// the store is still empty during the initial open: keep few points
			continue
		}
		ks = append(ks, k)
	}
	sort.Slice(ks, func(i, j int) bool { return ks[i] < ks[j] })
	callOf := func(k int64) int {
		// index of the call during which operation k happened in phase 1 (-1: open)
		for i := len(bounds) - 2; i >= 0; i-- {
			if k > bounds[i] {
				return i
			}
		}
		return -1
	}
	canonBase := strings.Join(c.w.render(), ";")
	for _, r := range c.w.m0.Reps {
		canonBase = r.ID() + canonBase
	}
	sampled := false
	tornBudget := 4
	for pi, k := range ks {
		// every crash point in the thorough tier, every second one in the quick tier
		c.secondCut = cfg.Exhaustive || pi%2 == 0
		variants := []int{0}
		mem, ctl, done, inflight, _ := c.runTo(open, k, false)
		_, kind, _ := ctl.Cut()
		cut := kind != 0 // kind 0: the cut was forced after the last call returned
		torn := ctl.Torn()
		if cfg.Exhaustive && torn != nil && len(torn.Data) > 0 {
			variants = append(variants, len(torn.Data))
			if len(torn.Data) > 1 {
				variants = append(variants, rapid.IntRange(1, len(torn.Data)-1).Draw(t, "tornlen"))
			}
		} else if !cfg.Exhaustive && torn != nil && len(torn.Data) > 1 && tornBudget > 0 {
			// quick tier: a few torn-tail variants per workload
			tornBudget--
			if tornBudget == 3 {
				// (the whole unsynced tail survived: a complete record that was never fsynced)
				variants = append(variants, len(torn.Data))
			} else {
				variants = append(variants, rapid.IntRange(1, len(torn.Data)-1).Draw(t, "tornlen"))
			}
		}
		for vi, tornLen := range variants {
			if vi > 0 {
				// the FS of the previous variant was consumed by the reopen
				mem, ctl, done, inflight, _ = c.runTo(open, k, false)
				torn = ctl.Torn()
				if torn == nil {
					continue
				}
			}
			labels := map[string]bool{}
			if tornLen > 0 {
				c.secondCut = true
			}
			c.desc = fmt.Sprintf("cut at a %s operation", kind)
			if !cut {
				c.desc = "cut after the last operation"
			}
			if tornLen > 0 && torn != nil {
				c.desc += fmt.Sprintf(", torn tail: %d of %d unsynced bytes of %s (synced length %d) re-applied",
					tornLen, len(torn.Data), torn.Path, torn.Synced)
			}
			applied := PowerCycle(mem, torn, tornLen)
			if tornLen > 0 {
				if !applied {
					st.Count("torn-tail-not-applicable", 1)
					continue
				}
				labels["torn-tail"] = true
				if tornLen == len(torn.Data) {
					labels["torn-tail-full"] = true
				}
			}
			nontrivial := false
			if !cut {
				labels["cut-after-last-call"] = true
			} else {
				labels["cut-op-"+kind.String()] = true
				switch {
				case inflight >= 0:
					o := c.w.ops[inflight]
					labels["cut-in-"+opNames[o.Kind]] = true
					if o.Kind == OpSave {
						before := c.w.models[inflight]
						for _, u := range o.Updates {
							if components(u, before.find(u.ShardID, u.ReplicaID)) >= 2 {
								nontrivial = true
								labels["cut-in-save-changing-2+"] = true
							}
						}
						if len(o.Updates) > 1 {
							labels["cut-in-multi-replica-save"] = true
						}
					}
					if tr.Tan && o.Kind != OpReopen && o.Kind != OpImport &&
						(kind == FSCreate || kind == FSRename || kind == FSRemove || kind == FSDirSync) {
						if o.Kind == OpSave || o.Kind == OpRemoveEntries || o.Kind == OpSaveSnapshots {
							nontrivial = true
							labels["cut-in-tan-rollover-or-compaction"] = true
						}
					}
				default:
					if ci := callOf(k); ci >= 0 && ci < len(c.w.ops) &&
						(c.w.ops[ci].Kind == OpReopen || c.w.ops[ci].Kind == OpImport) {
						labels["cut-in-reopen"] = true
					} else {
						labels["cut-in-open-or-between-calls"] = true
					}
				}
			}
			if !c.validate(open, mem, k, done, inflight, ctl.Hazards(), labels) {
				nontrivial = false
			}
			ls := make([]string, 0, len(labels))
			for l := range labels {
				ls = append(ls, l)
			}
			st.Case([]byte(fmt.Sprintf("%s@%d/%d", canonBase, k, tornLen)), nontrivial, ls...)
			if nontrivial && !sampled && st.WantSample() {
				sampled = true
				st.Sample(map[string]interface{}{"store": tr.Name, "calls": c.w.render(), "fs_ops": total,
					"crash_point": k, "cut_op": kind.String(), "acknowledged_calls": done, "in_flight_call": inflight})
			}
		}
	}
	st.Count("workloads", 1)
	st.Count("fs-ops-total", int(total))
}
