package logstore

import (
	"errors"
	"io"
	"os"
	"strings"
	"sync"

	"github.com/lni/vfs"
)

// FSOp is the kind of a counted (state changing) file-system operation.
type FSOp uint8

// counted operation kinds
const (
	FSCreate FSOp = iota + 1
	FSWrite
	FSSync
	FSDirSync
	FSRename
	FSRemove
	FSMkdir
	FSLink
	FSReuse
	FSLock
)

var fsOpNames = map[FSOp]string{
	FSCreate: "create", FSWrite: "write", FSSync: "sync", FSDirSync: "dirsync",
	FSRename: "rename", FSRemove: "remove", FSMkdir: "mkdir", FSLink: "link",
	FSReuse: "reuse", FSLock: "lock",
}

func (o FSOp) String() string { return fsOpNames[o] }

// ErrInjectedFS is the error returned by an operation chosen for error injection.
var ErrInjectedFS = errors.New("vf: injected fs error")

type pendingFile struct {
	synced    int64 // length at the last sync
	data      []byte
	untracked bool
}

// TornTail describes unsynced appended bytes of one file at the crash instant.
type TornTail struct {
	Path   string
	Synced int64
	Data   []byte
}

// FSCtl is the shared control block of a CtlFS: it numbers the state changing
// operations, triggers the power cut at a chosen operation number and injects an
// error into a chosen operation. All methods are safe for concurrent use (Pebble
// performs I/O on background goroutines).
type FSCtl struct {
	mu  sync.Mutex
	mem *vfs.MemFS
	n   int64

	trace   bool
	traceOp []FSOp

	cutAt       int64
	cut         bool
	cutKind     FSOp
	cutInflight int64
	cutDone     int
	// call bookkeeping of the harness, only touched under mu so that it is
	// ordered with the cut no matter which goroutine performs the cut operation
	// (Pebble's WAL flusher, flush and compaction workers and tan's obsolete file
	// deleter issue FS operations on their own goroutines): inflight is the index
	// of the store call currently executing (-1 none, -2 initial open), done the
	// number of calls that returned before the cut.
	inflight int64
	done     int

	pending     map[string]*pendingFile
	lastWritten string
	torn        *TornTail

	// hazards: index files (NNN.index) renamed into place while the log file
	// they describe (NNN.log) had unsynced appended bytes; confirmed by the next
	// directory sync before the cut (mechanism of known finding S9)
	hazardPending []string
	hazards       []string

	failArmed bool
	failKinds map[FSOp]bool
	failAt    int
	failSeen  int
	failed    bool
	failKind  FSOp
}

// NewFSCtl returns a control block for the given strict in-memory FS.
func NewFSCtl(mem *vfs.MemFS) *FSCtl {
	return &FSCtl{mem: mem, pending: make(map[string]*pendingFile), inflight: -1}
}

// Trace makes the control block record the kind of every counted operation.
func (c *FSCtl) Trace() { c.trace = true }

// Ops returns the number of operations counted so far.
func (c *FSCtl) Ops() int64 {
	c.mu.Lock()
	defer c.mu.Unlock()
	return c.n
}

// TraceOps returns the recorded operation kinds (1-based op k is at k-1).
func (c *FSCtl) TraceOps() []FSOp {
	c.mu.Lock()
	defer c.mu.Unlock()
	return append([]FSOp(nil), c.traceOp...)
}

// CutAt arms the power cut: immediately before the k-th counted operation
// (1-based) the FS starts ignoring syncs, i.e. nothing from that operation on
// becomes durable.
func (c *FSCtl) CutAt(k int64) { c.cutAt = k }

// ForceCut cuts the power now (between two operations) unless the armed cut
// has already fired; it reports whether it did.
func (c *FSCtl) ForceCut() bool {
	c.mu.Lock()
	defer c.mu.Unlock()
	if c.cut {
		return false
	}
	c.cut = true
	c.cutKind = 0
	c.cutInflight = c.inflight
	c.cutDone = c.done
	c.mem.SetIgnoreSyncs(true)
	c.snapshotTornLocked()
	return true
}

// SetPhase marks a harness phase that is not a workload call (-2: initial
// open, -1: between calls).
func (c *FSCtl) SetPhase(p int64) {
	c.mu.Lock()
	c.inflight = p
	c.mu.Unlock()
}

// BeginCall marks workload call i as executing. It returns false, and the call
// must not be made, when the power is already off: a call that starts after
// the cut never happened.
func (c *FSCtl) BeginCall(i int) bool {
	c.mu.Lock()
	defer c.mu.Unlock()
	if c.cut {
		return false
	}
	c.inflight = int64(i)
	return true
}

// EndCall marks the executing call as returned. Only a call that returns
// before the cut counts as acknowledged; one that began before the cut and
// returns after it was recorded as the call in flight by the cut.
func (c *FSCtl) EndCall() {
	c.mu.Lock()
	defer c.mu.Unlock()
	if !c.cut {
		c.done++
	}
	c.inflight = -1
}

// CutState returns, for a cut that has fired, the number of workload calls that
// had returned before it and the call in flight at that instant (-1 none, -2
// the initial open).
func (c *FSCtl) CutState() (int, int64) {
	c.mu.Lock()
	defer c.mu.Unlock()
	return c.cutDone, c.cutInflight
}

// Cut reports whether the power cut fired, which operation kind it hit and the
// harness call that was in flight (-1 none).
func (c *FSCtl) Cut() (bool, FSOp, int64) {
	c.mu.Lock()
	defer c.mu.Unlock()
	return c.cut, c.cutKind, c.cutInflight
}

// Torn returns the unsynced tail of the most recently written file at the crash
// instant (nil when there is none that can be re-applied).
func (c *FSCtl) Torn() *TornTail {
	c.mu.Lock()
	defer c.mu.Unlock()
	return c.torn
}

// ArmFail makes the j-th (1-based) operation of one of the kinds fail.
func (c *FSCtl) ArmFail(j int, kinds ...FSOp) {
	c.mu.Lock()
	defer c.mu.Unlock()
	c.failArmed = true
	c.failKinds = make(map[FSOp]bool)
	for _, k := range kinds {
		c.failKinds[k] = true
	}
	c.failAt = j
	c.failSeen = 0
	c.failed = false
}

// Disarm stops error injection and reports how many candidate operations were
// seen since ArmFail, whether one failed and of which kind.
func (c *FSCtl) Disarm() (int, bool, FSOp) {
	c.mu.Lock()
	defer c.mu.Unlock()
	c.failArmed = false
	return c.failSeen, c.failed, c.failKind
}

func (c *FSCtl) snapshotTornLocked() {
	if c.lastWritten == "" {
		return
	}
	p := c.pending[c.lastWritten]
	if p == nil || p.untracked || len(p.data) == 0 {
		return
	}
	c.torn = &TornTail{Path: c.lastWritten, Synced: p.synced,
		Data: append([]byte(nil), p.data...)}
}

// step counts one operation. It returns (isCutOp, err).
func (c *FSCtl) step(kind FSOp) (bool, error) {
	c.mu.Lock()
	defer c.mu.Unlock()
	c.n++
	if c.trace {
		c.traceOp = append(c.traceOp, kind)
	}
	isCut := false
	if c.cutAt > 0 && c.n == c.cutAt && !c.cut {
		c.cut = true
		c.cutKind = kind
		c.cutInflight = c.inflight
		c.cutDone = c.done
		c.mem.SetIgnoreSyncs(true)
		isCut = true
		if kind != FSWrite {
			c.snapshotTornLocked()
		}
	}
	if c.failArmed && c.failKinds[kind] && !c.failed {
		c.failSeen++
		if c.failSeen == c.failAt {
			c.failed = true
			c.failKind = kind
			return isCut, ErrInjectedFS
		}
	}
	return isCut, nil
}

func (c *FSCtl) noteCreate(path string) {
	c.mu.Lock()
	c.pending[path] = &pendingFile{}
	c.mu.Unlock()
}

func (c *FSCtl) noteUntracked(path string) {
	c.mu.Lock()
	c.pending[path] = &pendingFile{untracked: true}
	c.mu.Unlock()
}

func (c *FSCtl) noteRename(from, to string) {
	c.mu.Lock()
	if strings.HasSuffix(to, ".index") && !c.cut {
		logp := strings.TrimSuffix(to, ".index") + ".log"
		if p := c.pending[logp]; p != nil && !p.untracked && len(p.data) > 0 {
			c.hazardPending = append(c.hazardPending, logp)
		}
	}
	if p, ok := c.pending[from]; ok {
		c.pending[to] = p
		delete(c.pending, from)
	} else {
		delete(c.pending, to)
	}
	if c.lastWritten == from {
		c.lastWritten = to
	}
	c.mu.Unlock()
}

func (c *FSCtl) noteRemove(path string) {
	c.mu.Lock()
	delete(c.pending, path)
	c.mu.Unlock()
}

func (c *FSCtl) noteWrite(path string, data []byte, isCut bool) {
	c.mu.Lock()
	defer c.mu.Unlock()
	p := c.pending[path]
	if p == nil {
		p = &pendingFile{untracked: true}
		c.pending[path] = p
	}
	if !p.untracked && (!c.cut || isCut) {
		p.data = append(p.data, data...)
		c.lastWritten = path
	}
	if isCut {
		c.snapshotTornLocked()
	}
}

// Hazards lists the log files whose index file became durable before the cut
// while they still had unsynced appended bytes.
func (c *FSCtl) Hazards() []string {
	c.mu.Lock()
	defer c.mu.Unlock()
	return append([]string(nil), c.hazards...)
}

func (c *FSCtl) noteDirSync() {
	c.mu.Lock()
	defer c.mu.Unlock()
	if c.cut {
		return
	}
	c.hazards = append(c.hazards, c.hazardPending...)
	c.hazardPending = nil
}

func (c *FSCtl) noteSync(path string) {
	c.mu.Lock()
	defer c.mu.Unlock()
	if c.cut {
		return
	}
	drop := func(l []string) []string {
		out := l[:0]
		for _, h := range l {
			if h != path {
				out = append(out, h)
			}
		}
		return out
	}
	c.hazards, c.hazardPending = drop(c.hazards), drop(c.hazardPending)
	if p := c.pending[path]; p != nil && !p.untracked {
		p.synced += int64(len(p.data))
		p.data = nil
	}
}

// CtlFS is a vfs.FS that forwards to a strict MemFS and reports every state
// changing operation (also those of the files it hands out) to its FSCtl.
type CtlFS struct {
	vfs.FS
	ctl *FSCtl
}

// NewCtlFS wraps mem.
func NewCtlFS(mem *vfs.MemFS, ctl *FSCtl) *CtlFS {
	return &CtlFS{FS: mem, ctl: ctl}
}

var _ vfs.FS = (*CtlFS)(nil)

// Create implements vfs.FS.
func (f *CtlFS) Create(name string) (vfs.File, error) {
	if _, err := f.ctl.step(FSCreate); err != nil {
		return nil, err
	}
	file, err := f.FS.Create(name)
	if err != nil {
		return nil, err
	}
	f.ctl.noteCreate(name)
	return &ctlFile{File: file, ctl: f.ctl, path: name}, nil
}

// Link implements vfs.FS.
func (f *CtlFS) Link(oldname, newname string) error {
	if _, err := f.ctl.step(FSLink); err != nil {
		return err
	}
	f.ctl.noteUntracked(newname)
	return f.FS.Link(oldname, newname)
}

func (f *CtlFS) wrapOpened(name string, file vfs.File, err error) (vfs.File, error) {
	if err != nil {
		return nil, err
	}
	isDir := false
	if st, serr := file.Stat(); serr == nil && st != nil {
		isDir = st.IsDir()
	}
	return &ctlFile{File: file, ctl: f.ctl, path: name, dir: isDir}, nil
}

// Open implements vfs.FS.
func (f *CtlFS) Open(name string, opts ...vfs.OpenOption) (vfs.File, error) {
	file, err := f.FS.Open(name)
	w, err := f.wrapOpened(name, file, err)
	if err != nil {
		return nil, err
	}
	for _, o := range opts {
		o.Apply(w)
	}
	return w, nil
}

// OpenDir implements vfs.FS.
func (f *CtlFS) OpenDir(name string) (vfs.File, error) {
	file, err := f.FS.OpenDir(name)
	if err != nil {
		return nil, err
	}
	return &ctlFile{File: file, ctl: f.ctl, path: name, dir: true}, nil
}

// OpenForAppend implements vfs.FS.
func (f *CtlFS) OpenForAppend(name string) (vfs.File, error) {
	file, err := f.FS.OpenForAppend(name)
	if err != nil {
		return nil, err
	}
	f.ctl.noteUntracked(name)
	return &ctlFile{File: file, ctl: f.ctl, path: name}, nil
}

// Remove implements vfs.FS.
func (f *CtlFS) Remove(name string) error {
	if _, err := f.ctl.step(FSRemove); err != nil {
		return err
	}
	f.ctl.noteRemove(name)
	return f.FS.Remove(name)
}

// RemoveAll implements vfs.FS. It is counted but never chosen for error
// injection by the harnesses (Tan and Pebble call it on background goroutines).
func (f *CtlFS) RemoveAll(name string) error {
	if _, err := f.ctl.step(FSRemove); err != nil {
		return err
	}
	f.ctl.noteRemove(name)
	return f.FS.RemoveAll(name)
}

// Rename implements vfs.FS.
func (f *CtlFS) Rename(oldname, newname string) error {
	if _, err := f.ctl.step(FSRename); err != nil {
		return err
	}
	if err := f.FS.Rename(oldname, newname); err != nil {
		return err
	}
	f.ctl.noteRename(oldname, newname)
	return nil
}

// ReuseForWrite implements vfs.FS.
func (f *CtlFS) ReuseForWrite(oldname, newname string) (vfs.File, error) {
	if _, err := f.ctl.step(FSReuse); err != nil {
		return nil, err
	}
	file, err := f.FS.ReuseForWrite(oldname, newname)
	if err != nil {
		return nil, err
	}
	f.ctl.noteRemove(oldname)
	f.ctl.noteUntracked(newname)
	return &ctlFile{File: file, ctl: f.ctl, path: newname}, nil
}

// MkdirAll implements vfs.FS.
func (f *CtlFS) MkdirAll(dir string, perm os.FileMode) error {
	if _, err := f.ctl.step(FSMkdir); err != nil {
		return err
	}
	return f.FS.MkdirAll(dir, perm)
}

// Lock implements vfs.FS.
func (f *CtlFS) Lock(name string) (io.Closer, error) {
	if _, err := f.ctl.step(FSLock); err != nil {
		return nil, err
	}
	return f.FS.Lock(name)
}

type ctlFile struct {
	vfs.File
	ctl  *FSCtl
	path string
	dir  bool
}

func (f *ctlFile) Write(p []byte) (int, error) {
	isCut, err := f.ctl.step(FSWrite)
	if err != nil {
		return 0, err
	}
	n, err := f.File.Write(p)
	if err == nil {
		f.ctl.noteWrite(f.path, p[:n], isCut)
	}
	return n, err
}

func (f *ctlFile) WriteAt(p []byte, off int64) (int, error) {
	if _, err := f.ctl.step(FSWrite); err != nil {
		return 0, err
	}
	f.ctl.noteUntracked(f.path)
	return f.File.WriteAt(p, off)
}

func (f *ctlFile) Sync() error {
	kind := FSSync
	if f.dir {
		kind = FSDirSync
	}
	if _, err := f.ctl.step(kind); err != nil {
		return err
	}
	if err := f.File.Sync(); err != nil {
		return err
	}
	if !f.dir {
		f.ctl.noteSync(f.path)
	} else {
		f.ctl.noteDirSync()
	}
	return nil
}

// PowerCycle finishes a power cut on mem: the caller has already closed the
// store; all unsynced state is dropped and syncs are honoured again. When torn
// is not nil, the first n bytes of the unsynced tail are re-applied to the file
// (torn write); it reports whether that was possible.
func PowerCycle(mem *vfs.MemFS, torn *TornTail, n int) bool {
	mem.ResetToSyncedState()
	mem.SetIgnoreSyncs(false)
	if torn == nil || n <= 0 {
		return false
	}
	st, err := mem.Stat(torn.Path)
	if err != nil || st.Size() != torn.Synced {
		return false
	}
	f, err := mem.OpenForAppend(torn.Path)
	if err != nil {
		return false
	}
	if n > len(torn.Data) {
		n = len(torn.Data)
	}
	_, werr := f.Write(torn.Data[:n])
	_ = f.Close()
	return werr == nil
}
