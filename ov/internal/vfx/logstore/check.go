package logstore

import (
	"errors"
	"fmt"
	"math"
	"reflect"
	"sort"

	"github.com/lni/dragonboat/v4/raftio"
	pb "github.com/lni/dragonboat/v4/raftpb"
)

// Mismatch is a difference between the store and the model.
type Mismatch struct {
	Sig string
	Msg string
}

func (m *Mismatch) Error() string { return m.Sig + ": " + m.Msg }

func mm(sig string, format string, args ...interface{}) *Mismatch {
	return &Mismatch{Sig: sig, Msg: fmt.Sprintf(format, args...)}
}

// EntrySize is the store's own size measure of one entry.
func EntrySize(e pb.Entry) uint64 { return uint64(e.SizeUpperLimit()) }

func entryEqual(a, b pb.Entry) bool {
	if len(a.Cmd) == 0 && len(b.Cmd) == 0 {
		a.Cmd, b.Cmd = nil, nil
	}
	return reflect.DeepEqual(a, b)
}

func normSnapshot(s pb.Snapshot) string {
	addrs := make([]string, 0)
	for k, v := range s.Membership.Addresses {
		addrs = append(addrs, fmt.Sprintf("%d=%s", k, v))
	}
	sort.Strings(addrs)
	return fmt.Sprintf("idx=%d term=%d shard=%d path=%q size=%d type=%d cks=%x ondisk=%d imported=%v dummy=%v witness=%v ccid=%d addrs=%v files=%d",
		s.Index, s.Term, s.ShardID, s.Filepath, s.FileSize, s.Type, s.Checksum, s.OnDiskIndex,
		s.Imported, s.Dummy, s.Witness, s.Membership.ConfigChangeId, addrs, len(s.Files))
}

func normBootstrap(b pb.Bootstrap) string {
	addrs := make([]string, 0)
	for k, v := range b.Addresses {
		addrs = append(addrs, fmt.Sprintf("%d=%s", k, v))
	}
	sort.Strings(addrs)
	return fmt.Sprintf("join=%v type=%d addrs=%v", b.Join, b.Type, addrs)
}

// safely runs f and converts a panic of the code under test into a Mismatch.
func safely(what string, f func() *Mismatch) (res *Mismatch) {
	defer func() {
		if p := recover(); p != nil {
			res = mm("store-panic-"+what, "panic in %s: %v", what, p)
		}
	}()
	return f()
}

// QueryCheck runs IterateEntries(low, high, max) for the replica (the caller
// guarantees Marker < low < high <= Last+1) and compares it with the model:
// the result must be a prefix of the model's range, complete unless the
// returned size exceeds max, and the returned size must be the sum of the
// entries' sizes. It returns the number of entries returned.
func QueryCheck(db raftio.ILogDB, r *Rep, low, high, max uint64) (int, *Mismatch) {
	var n int
	res := safely("iterate", func() *Mismatch {
		want := high - low
		ents, size, err := db.IterateEntries(make([]pb.Entry, 0, want), 0,
			r.Shard, r.Replica, low, high, max)
		if err != nil {
			return mm("iterate-error", "%s IterateEntries(%d,%d,%d) failed: %v", r.ID(), low, high, max, err)
		}
		n = len(ents)
		if uint64(len(ents)) > want {
			return mm("iterate-entry-past-range", "%s IterateEntries(%d,%d,%d) returned %d entries, range holds %d",
				r.ID(), low, high, max, len(ents), want)
		}
		sum := uint64(0)
		for i, e := range ents {
			idx := low + uint64(i)
			if e.Index != idx {
				return mm("iterate-gap", "%s IterateEntries(%d,%d,%d): position %d has index %d, want %d",
					r.ID(), low, high, max, i, e.Index, idx)
			}
			w := r.Entry(idx)
			if !entryEqual(e, w) {
				sig := "iterate-wrong-entry"
				if e.Term != w.Term {
					sig = "iterate-stale-entry"
				}
				return mm(sig, "%s IterateEntries(%d,%d,%d): index %d is {t%d cmd %d bytes key %d}, model {t%d cmd %d bytes key %d}",
					r.ID(), low, high, max, idx, e.Term, len(e.Cmd), e.Key, w.Term, len(w.Cmd), w.Key)
			}
			sum += EntrySize(e)
		}
		if size != sum {
			return mm("iterate-size-mismatch", "%s IterateEntries(%d,%d,%d) reported size %d, entries sum to %d",
				r.ID(), low, high, max, size, sum)
		}
		if uint64(len(ents)) < want && !(size > max) {
			sig := "iterate-short"
			if len(ents) == 0 {
				sig = "iterate-empty"
			}
			return mm(sig, "%s IterateEntries(%d,%d,%d) returned %d of %d entries although size %d <= max",
				r.ID(), low, high, max, len(ents), want, size)
		}
		return nil
	})
	return n, res
}

// CheckMeta compares hard state, reported range, snapshot record and bootstrap
// record of one replica with the model.
func CheckMeta(db raftio.ILogDB, r *Rep, tr Traits) *Mismatch {
	return safely("meta", func() *Mismatch {
		ss, err := db.GetSnapshot(r.Shard, r.Replica)
		if err != nil {
			return mm("getsnapshot-error", "%s GetSnapshot failed: %v", r.ID(), err)
		}
		if normSnapshot(ss) != normSnapshot(r.Snap) {
			return mm("snapshot-record-mismatch", "%s GetSnapshot = %s, model %s", r.ID(),
				normSnapshot(ss), normSnapshot(r.Snap))
		}
		// callers pass the index of the snapshot found in the store
		rs, err := db.ReadRaftState(r.Shard, r.Replica, ss.Index)
		if !r.HasState {
			if !errors.Is(err, raftio.ErrNoSavedLog) {
				return mm("raftstate-expected-nosavedlog", "%s ReadRaftState(%d) = %+v, %v; model has no state",
					r.ID(), ss.Index, rs, err)
			}
		} else {
			if err != nil {
				return mm("raftstate-error", "%s ReadRaftState(%d) failed: %v", r.ID(), ss.Index, err)
			}
			lagged := false
			if r.LagOK && rs.State.Term == r.State.Term && rs.State.Vote == r.State.Vote &&
				rs.State.Commit < r.State.Commit {
				for _, h := range r.StateHist {
					if pb.IsStateEqual(h, rs.State) {
						lagged = true
					}
				}
			}
			if pb.IsEmptyState(rs.State) {
				return mm("hard-state-reads-empty", "%s ReadRaftState returned an empty state and no error, model %+v",
					r.ID(), r.State)
			}
			if !pb.IsStateEqual(rs.State, r.State) && !lagged {
				return mm("hard-state-mismatch", "%s ReadRaftState state %+v, model %+v", r.ID(), rs.State, r.State)
			}
			if r.Last > ss.Index {
				// there are entries above the snapshot: the range must reach down to
				// the snapshot (no gap) and end exactly at the logical last index
				if rs.EntryCount == 0 {
					return mm("raftstate-range-empty", "%s ReadRaftState(%d) reports no entries, model last %d",
						r.ID(), ss.Index, r.Last)
				}
				if rs.FirstIndex > ss.Index+1 {
					return mm("raftstate-gap-after-snapshot", "%s ReadRaftState(%d) first %d count %d leaves a gap",
						r.ID(), ss.Index, rs.FirstIndex, rs.EntryCount)
				}
				if last := rs.FirstIndex + rs.EntryCount - 1; last != r.Last {
					sig := "raftstate-range-short"
					if last > r.Last {
						sig = "raftstate-entry-past-logical-end"
					}
					return mm(sig, "%s ReadRaftState(%d) first %d count %d ends at %d, model last %d",
						r.ID(), ss.Index, rs.FirstIndex, rs.EntryCount, last, r.Last)
				}
			} else if rs.EntryCount > 0 {
				if last := rs.FirstIndex + rs.EntryCount - 1; last > ss.Index {
					return mm("raftstate-entry-past-logical-end",
						"%s ReadRaftState(%d) first %d count %d ends at %d, model log is empty above %d",
						r.ID(), ss.Index, rs.FirstIndex, rs.EntryCount, last, r.Last)
				}
			}
		}
		bs, err := db.GetBootstrapInfo(r.Shard, r.Replica)
		if r.Boot == nil {
			if !errors.Is(err, raftio.ErrNoBootstrapInfo) {
				return mm("bootstrap-unexpected", "%s GetBootstrapInfo = %s, %v; model has none", r.ID(),
					normBootstrap(bs), err)
			}
		} else {
			if err != nil {
				return mm("bootstrap-error", "%s GetBootstrapInfo failed: %v", r.ID(), err)
			}
			if normBootstrap(bs) != normBootstrap(*r.Boot) {
				return mm("bootstrap-mismatch", "%s GetBootstrapInfo = %s, model %s", r.ID(),
					normBootstrap(bs), normBootstrap(*r.Boot))
			}
		}
		return nil
	})
}

// CheckReplica compares everything observable for one replica.
func CheckReplica(db raftio.ILogDB, r *Rep, tr Traits) *Mismatch {
	if m := CheckMeta(db, r, tr); m != nil {
		return m
	}
	if r.Removed && r.GoneLast > 0 {
		// RemoveNodeData removes all data of the node: nothing of the removed
		// life may be readable, now or after a reopen
		if m := safely("iterate-removed", func() *Mismatch {
			ents, _, err := db.IterateEntries(nil, 0, r.Shard, r.Replica, 1, r.GoneLast+1, math.MaxUint64)
			if err != nil {
				return mm("removed-replica-iterate-error", "%s IterateEntries(1,%d) on the removed replica failed: %v",
					r.ID(), r.GoneLast+1, err)
			}
			if len(ents) > 0 {
				return mm("removed-replica-entries-resurrected", "%s was removed with RemoveNodeData, IterateEntries(1,%d) "+
					"still returns %d entries (%d..%d, term %d)", r.ID(), r.GoneLast+1, len(ents), ents[0].Index,
					ents[len(ents)-1].Index, ents[0].Term)
			}
			return nil
		}); m != nil {
			return m
		}
	}
	if r.Last > r.Marker && len(r.Log) > 0 {
		low := r.Marker + 1
		if low < r.First {
			low = r.First
		}
		if low <= r.Last {
			if _, m := QueryCheck(db, r, low, r.Last+1, math.MaxUint64); m != nil {
				return m
			}
		}
	}
	return nil
}

// CheckNodeList compares ListNodeInfo with the model. With ignoreRemoved the
// replicas marked Removed may or may not be listed (crash validation does not
// decide RemoveNodeData).
func CheckNodeList(db raftio.ILogDB, m *Model, ignoreRemoved bool) *Mismatch {
	return safely("listnodeinfo", func() *Mismatch {
		nis, err := db.ListNodeInfo()
		if err != nil {
			return mm("listnodeinfo-error", "ListNodeInfo failed: %v", err)
		}
		skip := map[string]bool{}
		if ignoreRemoved {
			for _, r := range m.Reps {
				if r.Removed {
					skip[r.ID()] = true
				}
			}
		}
		got := make([]string, 0)
		for _, ni := range nis {
			if id := fmt.Sprintf("(%d,%d)", ni.ShardID, ni.ReplicaID); !skip[id] {
				got = append(got, id)
			}
		}
		want := make([]string, 0)
		for _, r := range m.Reps {
			if r.Boot != nil && !skip[r.ID()] {
				want = append(want, r.ID())
			}
		}
		sort.Strings(got)
		sort.Strings(want)
		if !reflect.DeepEqual(got, want) {
			return mm("listnodeinfo-mismatch", "ListNodeInfo = %v, model %v", got, want)
		}
		return nil
	})
}
