package rsm

// Bridge of engine E5 (C14): re-exports the unexported pieces the external
// test package needs (V1 writer, V1 session serialisation, block size).

import (
	"bytes"
	"encoding/binary"
	"encoding/json"

	"github.com/lni/dragonboat/v4/internal/vfs"
	pb "github.com/lni/dragonboat/v4/raftpb"
)

// VFBlockSize is the unexported block size of the v2 format.
const VFBlockSize = blockSize

// VFTailSize and VFChecksumSize are the unexported format constants.
var (
	VFTailSize     = tailSize
	VFChecksumSize = checksumSize
)

// VFNewV1SnapshotWriter creates a snapshot writer producing the V1 format.
func VFNewV1SnapshotWriter(fp string, ct pb.CompressionType, fs vfs.IFS) (*SnapshotWriter, error) {
	return newVersionedSnapshotWriter(fp, V1, ct, fs)
}

// VFV1SessionBytes serialises sessions in the V1 snapshot format (the framing
// of lrusession.save with v1session JSON records, in the given order).
func VFV1SessionBytes(lruSize uint64, clients []uint64, responses int) []byte {
	seen := map[uint64]bool{}
	ids := make([]uint64, 0, len(clients))
	for _, c := range clients {
		if !seen[c] {
			seen[c] = true
			ids = append(ids, c)
		}
	}
	buf := &bytes.Buffer{}
	b8 := make([]byte, 8)
	binary.LittleEndian.PutUint64(b8, lruSize)
	buf.Write(b8)
	binary.LittleEndian.PutUint64(b8, uint64(len(ids)))
	buf.Write(b8)
	for _, c := range ids {
		s := v1session{ClientID: RaftClientID(c), History: map[RaftSeriesID]uint64{}}
		for i := 0; i < responses; i++ {
			s.History[RaftSeriesID(i+1)] = c + uint64(i)
		}
		data, err := json.Marshal(&s)
		if err != nil {
			panic(err)
		}
		binary.LittleEndian.PutUint64(b8, uint64(len(data)))
		buf.Write(b8)
		buf.Write(data)
	}
	return buf.Bytes()
}
