package rsm_test

import (
	"bytes"
	"sort"
	"testing"

	"github.com/lni/dragonboat/v4/internal/rsm"
	"github.com/lni/dragonboat/v4/internal/vfhelp"
	"github.com/lni/dragonboat/v4/internal/vfx/snapio"
	sm "github.com/lni/dragonboat/v4/statemachine"
	"pgregory.net/rapid"
)

// v1Flavor writes V1 format files through the unexported versioned writer;
// the read side (reader, validator, session loader) is the production code.
func v1Flavor() snapio.Flavor {
	return snapio.Flavor{
		V1:     true,
		Writer: rsm.VFNewV1SnapshotWriter,
		SessionBytes: func(s snapio.SessionSpec) ([]byte, []byte) {
			file := rsm.VFV1SessionBytes(rsm.LRUMaxSessionCount, s.Clients, s.Responses)
			m := rsm.NewSessionManager()
			for _, c := range s.Clients {
				if r := m.RegisterClientID(c); r.Value != c {
					continue
				}
				ses, _ := m.ClientRegistered(c)
				for i := 0; i < s.Responses; i++ {
					m.AddResponse(ses, uint64(i+1), sm.Result{Value: c + uint64(i)})
				}
			}
			buf := &bytes.Buffer{}
			if err := m.SaveSessions(buf); err != nil {
				panic(err)
			}
			return file, buf.Bytes()
		},
	}
}

func TestVF_C14_Constants(t *testing.T) {
	if uint64(rsm.VFBlockSize) != uint64(snapio.BlockSize) || rsm.VFTailSize != uint64(snapio.TailSize) || rsm.VFChecksumSize != uint64(snapio.CRCSize) {
		t.Fatalf("VFINCONCLUSIVE format constants changed: block %d tail %d crc %d", rsm.VFBlockSize, rsm.VFTailSize, rsm.VFChecksumSize)
	}
}

func TestVF_C14_V1RoundTrip(t *testing.T) {
	TestVF_C14_Constants(t)
	st := vfhelp.NewStats("TestVF_C14_V1RoundTrip",
		"as TestVF_C14_FileRoundTrip but the file is produced in format V1 by the unexported versioned writer (V1 session records), read by the production reader; no shrink (V1 predates on-disk state machines)")
	defer st.Flush()
	rapid.Check(t, snapio.FileRoundTripHuge(st, v1Flavor(), 22, 8))
}

func TestVF_C14_V1Flip(t *testing.T) {
	st := vfhelp.NewStats("TestVF_C14_V1Flip",
		"as TestVF_C14_FileFlip on V1 files (payload covered by one CRC verified when the reader is closed); non-trivial = a flip inside a payload of at least 64 KiB")
	defer st.Flush()
	rapid.Check(t, snapio.FileFlip(st, v1Flavor(), 12))
}

func TestVF_C14_V1HeaderExhaustive(t *testing.T) {
	st := vfhelp.NewStats("TestVF_C14_V1HeaderExhaustive", "every bit of the 1 KiB header of a small V1 file flipped and loaded")
	defer st.Flush()
	table := map[string]map[string]int{}
	defer func() {
		st.Set("header_flip_outcomes_by_region", table)
		var undetected []string
		for k, v := range table {
			if v["accepted-harmless"] > 0 {
				undetected = append(undetected, k)
			}
		}
		sort.Strings(undetected)
		st.Set("regions_with_undetected_flips", undetected)
	}()
	rapid.Check(t, snapio.HeaderExhaustive(st, v1Flavor(), table))
}

func TestVF_C14_V1Stream(t *testing.T) {
	st := vfhelp.NewStats("TestVF_C14_V1Stream",
		"V1 file split at a generated chunk size and fed to rsm.SnapshotValidator (v1 validator: whole payload CRC against the header's PayloadChecksum), same perturbations as TestVF_C14_Stream; non-trivial = at least 3 pieces and a perturbation of the payload or of the piece list")
	defer st.Flush()
	rapid.Check(t, snapio.Stream(st, v1Flavor(), 12))
}
