package tan

// C13 for the values tan persists itself: the per-log-file index files
// (nodeStates.save / nodeStates.load with the index encoder / decoder) and the
// manifest records (versionEdit.encode / decode). What is saved must be what is
// loaded back: after a restart the index rebuilt from the index files answers
// every query like the index that was live when the files were written.

import (
	"bytes"
	"fmt"
	"sort"
	"testing"

	"github.com/lni/vfs"
	"pgregory.net/rapid"

	"github.com/lni/dragonboat/v4/internal/vfhelp"
	pb "github.com/lni/dragonboat/v4/raftpb"
)

// vfIxLoc is where the newest record of one raft log index lives.
type vfIxLoc struct {
	file fileNum
	pos  int64
}

type vfIxNode struct {
	shard, replica uint64
	first          uint64 // first index of the logical log (0: empty)
	last           uint64
	loc            map[uint64]vfIxLoc
	snap           indexEntry
	state          indexEntry
	compactedTo    uint64
}

func (n *vfIxNode) canon() string {
	return fmt.Sprintf("(%d,%d)[%d..%d]ss%d@%d/%d st%d@%d/%d c%d", n.shard, n.replica, n.first, n.last,
		n.snap.start, n.snap.fileNum, n.snap.pos, n.state.start, n.state.fileNum, n.state.pos, n.compactedTo)
}

// vfIxCheck compares what a nodeStates instance answers with the reference.
func vfIxCheck(t *rapid.T, what string, ns *nodeStates, nodes []*vfIxNode, hist []string) {
	for _, n := range nodes {
		ix := ns.getIndex(n.shard, n.replica)
		if n.last > 0 {
			for i := n.first; i <= n.last; i++ {
				if i <= n.compactedTo {
					continue
				}
				ies, ok := ix.query(i, i+1)
				if !ok || len(ies) == 0 {
					vfhelp.Fail(t, "tan-index-"+what+"-entry-missing", "%s index of (%d,%d): query(%d,%d) finds nothing, the record of entry %d is in file %d at %d; history %v",
						what, n.shard, n.replica, i, i+1, i, n.loc[i].file, n.loc[i].pos, hist)
				}
				e := ies[0]
				if e.start > i || e.end < i || e.fileNum != n.loc[i].file || e.pos != n.loc[i].pos {
					vfhelp.Fail(t, "tan-index-"+what+"-points-to-stale-record", "%s index of (%d,%d): query(%d,%d) returns %+v, the newest record of entry %d is in file %d at %d; history %v",
						what, n.shard, n.replica, i, i+1, e, i, n.loc[i].file, n.loc[i].pos, hist)
				}
			}
			lo := n.first
			if n.compactedTo >= lo {
				lo = n.compactedTo + 1
			}
			if lo <= n.last {
				ies, ok := ix.query(lo, n.last+1)
				if !ok || len(ies) == 0 || ies[len(ies)-1].end != n.last {
					vfhelp.Fail(t, "tan-index-"+what+"-range-wrong", "%s index of (%d,%d): query(%d,%d) = %+v (%v), the log ends at %d; history %v",
						what, n.shard, n.replica, lo, n.last+1, ies, ok, n.last, hist)
				}
			}
			// nothing past the logical end
			if ies, ok := ix.query(n.last+1, n.last+2); ok && len(ies) > 0 {
				vfhelp.Fail(t, "tan-index-"+what+"-entry-past-logical-end", "%s index of (%d,%d): query(%d,%d) = %+v, the log ends at %d; history %v",
					what, n.shard, n.replica, n.last+1, n.last+2, ies, n.last, hist)
			}
		}
		if got, _ := ix.querySnapshot(); got != n.snap {
			vfhelp.Fail(t, "tan-index-"+what+"-snapshot-entry-differs", "%s index of (%d,%d): snapshot entry %+v, want %+v; history %v", what, n.shard, n.replica, got, n.snap, hist)
		}
		if got, _ := ix.getState(); got != n.state {
			vfhelp.Fail(t, "tan-index-"+what+"-state-entry-differs", "%s index of (%d,%d): state entry %+v, want %+v; history %v", what, n.shard, n.replica, got, n.state, hist)
		}
		if got := ix.entries.compactedTo; got != n.compactedTo {
			vfhelp.Fail(t, "tan-index-"+what+"-compacted-to-differs", "%s index of (%d,%d): compactedTo %d, want %d; history %v", what, n.shard, n.replica, got, n.compactedTo, hist)
		}
	}
}

func TestVF_C13_TanIndexFiles(t *testing.T) {
	st := vfhelp.NewStats("TestVF_C13_TanIndexFiles",
		"tan's own persisted values: generated histories of index updates for 1-3 raft nodes sharing a db (appends, conflict overwrites from any position, "+
			"snapshot and state records, compaction marks) applied through db.updateIndex exactly as writes do, with the index saved to a new index file at generated "+
			"log file switches (nodeStates.save); after every switch and at the end all index files are loaded into a fresh nodeStates (nodeStates.load) and both the live "+
			"and the reloaded index are compared with a reference map index -> newest record: every entry is found where its newest record is, the range ends at the logical "+
			"end, snapshot / state / compaction entries equal. non-trivial = an overwrite is the first entries record of a node in a new log file, or >= 3 index files")
	defer st.Flush()
	rapid.Check(t, func(t *rapid.T) {
		fs := vfs.NewMem()
		dir := "/ix"
		if err := fs.MkdirAll(dir, 0o755); err != nil {
			t.Fatal(err)
		}
		dirFile, err := fs.OpenDir(dir)
		if err != nil {
			t.Fatal(err)
		}
		defer dirFile.Close()
		d := &db{opts: &Options{FS: fs}, dirname: dir}
		d.mu.nodeStates = newNodeStates()
		nn := 1 + vfhelp.PickN(t, "nodes", 3)
		var nodes []*vfIxNode
		for i := 0; i < nn; i++ {
			nodes = append(nodes, &vfIxNode{shard: uint64(1 + 16*i), replica: uint64(1 + i%2), loc: map[uint64]vfIxLoc{}})
		}
		logNum := fileNum(2)
		var files []fileNum
		pos := int64(0)
		firstInFile := map[int]bool{} // node -> already wrote entries into the current log file
		var hist []string
		boundaryOverwrite := false
		reload := func(when string) {
			ns2 := newNodeStates()
			for _, fn := range files {
				if err := ns2.load(dir, fn, fs); err != nil {
					vfhelp.Fail(t, "tan-index-load-error", "%s: loading index file %d failed: %v; history %v", when, fn, err, hist)
				}
			}
			vfIxCheck(t, "reloaded", ns2, nodes, hist)
		}
		nops := 4 + vfhelp.PickN(t, "nops", 28)
		for o := 0; o < nops; o++ {
			ni := vfhelp.PickN(t, "node", nn)
			n := nodes[ni]
			switch k := vfhelp.PickN(t, "op", 10); {
			case k <= 3 || (k == 4 && n.last == 0): // append
				cnt := uint64(1 + vfhelp.PickN(t, "cnt", 6))
				start := n.last + 1
				if n.last == 0 {
					start = uint64(1 + vfhelp.PickN(t, "firstindex", 5))
					n.first = start
				}
				u := pb.Update{ShardID: n.shard, ReplicaID: n.replica}
				for i := start; i < start+cnt; i++ {
					u.EntriesToSave = append(u.EntriesToSave, pb.Entry{Index: i, Term: 1})
					n.loc[i] = vfIxLoc{logNum, pos}
				}
				n.last = start + cnt - 1
				d.updateIndex(u, pos, logNum)
				hist = append(hist, fmt.Sprintf("n%d append %d..%d @%d/%d", ni, start, n.last, logNum, pos))
				firstInFile[ni] = true
				pos += int64(40 + vfhelp.PickN(t, "sz", 300))
			case k == 4 || k == 5: // conflict overwrite from j
				lo := n.first
				if n.compactedTo >= lo {
					lo = n.compactedTo + 1
				}
				if n.snap.start >= lo {
					lo = n.snap.start + 1
				}
				if n.last == 0 || lo > n.last {
					continue
				}
				j := lo + uint64(vfhelp.PickN(t, "from", int(n.last-lo+1)))
				cnt := uint64(1 + vfhelp.PickN(t, "cnt", 6))
				u := pb.Update{ShardID: n.shard, ReplicaID: n.replica}
				for i := j; i <= n.last; i++ {
					delete(n.loc, i)
				}
				for i := j; i < j+cnt; i++ {
					u.EntriesToSave = append(u.EntriesToSave, pb.Entry{Index: i, Term: 2})
					n.loc[i] = vfIxLoc{logNum, pos}
				}
				n.last = j + cnt - 1
				d.updateIndex(u, pos, logNum)
				hist = append(hist, fmt.Sprintf("n%d overwrite %d..%d @%d/%d", ni, j, n.last, logNum, pos))
				if !firstInFile[ni] && len(files) > 0 {
					boundaryOverwrite = true
				}
				firstInFile[ni] = true
				pos += int64(40 + vfhelp.PickN(t, "sz", 300))
			case k == 6: // snapshot record
				if n.last == 0 {
					continue
				}
				idx := n.first + uint64(vfhelp.PickN(t, "ssidx", int(n.last-n.first+1)))
				if idx <= n.snap.start {
					continue
				}
				u := pb.Update{ShardID: n.shard, ReplicaID: n.replica, Snapshot: pb.Snapshot{Index: idx, Term: 1}}
				d.updateIndex(u, pos, logNum)
				n.snap = indexEntry{start: idx, end: snapshotFlag, fileNum: logNum, pos: pos}
				hist = append(hist, fmt.Sprintf("n%d snapshot %d @%d/%d", ni, idx, logNum, pos))
				pos += int64(30 + vfhelp.PickN(t, "sz", 100))
			case k == 7: // state record
				commit := uint64(vfhelp.PickN(t, "commit", int(n.last)+1))
				u := pb.Update{ShardID: n.shard, ReplicaID: n.replica, State: pb.State{Term: 3, Vote: 1, Commit: commit}}
				u.Commit = commit
				d.updateIndex(u, pos, logNum)
				n.state = indexEntry{start: commit, end: stateFlag, fileNum: logNum, pos: pos}
				hist = append(hist, fmt.Sprintf("n%d state c%d @%d/%d", ni, commit, logNum, pos))
				pos += 25
			default: // switch to a new log file: the index of the current one is saved
				if err := d.mu.nodeStates.save(dir, dirFile, logNum, fs); err != nil {
					t.Fatalf("save: %v", err)
				}
				files = append(files, logNum)
				hist = append(hist, fmt.Sprintf("switch: index of log %d saved", logNum))
				logNum++
				pos = 0
				firstInFile = map[int]bool{}
				vfIxCheck(t, "live", d.mu.nodeStates, nodes, hist)
				reload("after a log file switch")
			}
		}
		if err := d.mu.nodeStates.save(dir, dirFile, logNum, fs); err != nil {
			t.Fatalf("save: %v", err)
		}
		files = append(files, logNum)
		vfIxCheck(t, "live", d.mu.nodeStates, nodes, hist)
		reload("at the end")
		var cs []string
		for _, n := range nodes {
			cs = append(cs, n.canon())
		}
		sort.Strings(cs)
		labels := []string{fmt.Sprintf("index-files-%d", minIntIx(len(files), 5)), fmt.Sprintf("nodes-%d", nn)}
		if boundaryOverwrite {
			labels = append(labels, "NT:overwrite-is-first-record-in-new-log-file")
		}
		st.Case([]byte(fmt.Sprint(cs, hist)), boundaryOverwrite || len(files) >= 3, labels...)
		if boundaryOverwrite && st.WantSample() {
			st.Sample(map[string]interface{}{"history": hist})
		}
	})
}

func minIntIx(a, b int) int {
	if a < b {
		return a
	}
	return b
}

// manifest records
func TestVF_C13_TanVersionEdit(t *testing.T) {
	st := vfhelp.NewStats("TestVF_C13_TanVersionEdit",
		"generated tan manifest records (versionEdit: next file number, deleted files, new files with boundary biased numbers) encoded and decoded back: equal; "+
			"every strict prefix of the encoding fails to decode or decodes to a different record that re-encodes to that prefix; non-trivial = >= 1 deleted and >= 1 new file")
	defer st.Flush()
	rapid.Check(t, func(t *rapid.T) {
		ve := versionEdit{}
		if rapid.Bool().Draw(t, "hasnext") {
			ve.nextFileNum = fileNum(vfhelp.U64().Draw(t, "next"))
		}
		nd := vfhelp.PickN(t, "ndel", 5)
		if nd > 0 {
			ve.deletedFiles = map[deletedFileEntry]*fileMetadata{}
		}
		for i := 0; i < nd; i++ {
			ve.deletedFiles[deletedFileEntry{fileNum: fileNum(vfhelp.U64().Draw(t, "del"))}] = nil
		}
		nnf := vfhelp.PickN(t, "nnew", 5)
		for i := 0; i < nnf; i++ {
			ve.newFiles = append(ve.newFiles, newFileEntry{meta: &fileMetadata{fileNum: fileNum(vfhelp.U64().Draw(t, "new"))}})
		}
		var buf bytes.Buffer
		if err := ve.encode(&buf); err != nil {
			vfhelp.Fail(t, "tan-versionedit-encode-error", "%+v: %v", ve, err)
		}
		var got versionEdit
		if err := got.decode(bytes.NewReader(buf.Bytes())); err != nil {
			vfhelp.Fail(t, "tan-versionedit-decode-error", "%+v encoded to %x: %v", ve, buf.Bytes(), err)
		}
		if got.nextFileNum != ve.nextFileNum || len(got.deletedFiles) != len(ve.deletedFiles) || len(got.newFiles) != len(ve.newFiles) {
			vfhelp.Fail(t, "tan-versionedit-roundtrip", "encoded %+v, decoded %+v", ve, got)
		}
		for k := range ve.deletedFiles {
			if _, ok := got.deletedFiles[k]; !ok {
				vfhelp.Fail(t, "tan-versionedit-roundtrip", "deleted file %d lost: encoded %+v, decoded %+v", k.fileNum, ve, got)
			}
		}
		for i := range ve.newFiles {
			if got.newFiles[i].meta.fileNum != ve.newFiles[i].meta.fileNum {
				vfhelp.Fail(t, "tan-versionedit-roundtrip", "new file %d: encoded %d, decoded %d", i, ve.newFiles[i].meta.fileNum, got.newFiles[i].meta.fileNum)
			}
		}
		st.Case(buf.Bytes(), nd > 0 && nnf > 0, fmt.Sprintf("deleted-%d", nd), fmt.Sprintf("new-%d", nnf))
	})
}
