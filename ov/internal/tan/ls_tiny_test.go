package tan

// E3 (C09/C10) in-package harness: tan with a tiny MaxLogFileSize, so that log
// file rollover, index save/reload and file compaction happen every few writes
// instead of every 64 MiB. Only the db options differ from CreateTan.

import (
	"io"
	"log"
	"testing"

	"github.com/lni/vfs"
	"pgregory.net/rapid"

	"github.com/lni/dragonboat/v4/config"
	"github.com/lni/dragonboat/v4/internal/vfhelp"
	"github.com/lni/dragonboat/v4/internal/vfx/logstore"
	"github.com/lni/dragonboat/v4/logger"
	"github.com/lni/dragonboat/v4/raftio"
	pb "github.com/lni/dragonboat/v4/raftpb"
)

func init() {
	// Pebble logs "background error: vfs: not supported" (MemFS has no disk
	// usage) through the standard logger on every open
	log.SetOutput(io.Discard)
	for _, name := range []string{"tan", "logdb", "config", "settings", "dragonboat", "fileutil", "utils"} {
		logger.GetLogger(name).SetLevel(logger.ERROR)
	}
}

// vfTinyKeeper opens the per-node dbs with a small MaxLogFileSize; everything
// else is delegated to the keeper CreateTan installed.
type vfTinyKeeper struct {
	dbKeeper
	c   *collection
	max int64
}

func (k *vfTinyKeeper) get(shardID uint64, replicaID uint64) (*db, bool) {
	if d, ok := k.dbKeeper.get(shardID, replicaID); ok {
		return d, true
	}
	name := k.dbKeeper.name(shardID, replicaID)
	dbdir := k.c.fs.PathJoin(k.c.dirname, name)
	if err := k.c.prepareDir(dbdir); err != nil {
		panic(err)
	}
	d, err := open(dbdir, dbdir, &Options{FS: k.c.fs, MaxLogFileSize: k.max})
	if err != nil {
		panic(err)
	}
	k.dbKeeper.set(shardID, replicaID, d)
	return d, true
}

func vfTinyOpener(max int64, mux bool) logstore.Opener {
	return func(fs vfs.FS) (raftio.ILogDB, error) {
		expert := config.GetDefaultExpertConfig()
		expert.LogDB = config.GetTinyMemLogDBConfig()
		expert.LogDB.KVWriteBufferSize = 64 * 1024
		expert.FS = fs
		cfg := config.NodeHostConfig{Expert: expert}
		ldb, err := createTan(cfg, nil, []string{"/data/logdb"}, []string{}, !mux)
		if err != nil {
			return nil, err
		}
		ldb.collection.keeper = &vfTinyKeeper{dbKeeper: ldb.collection.keeper, c: &ldb.collection, max: max}
		return ldb, nil
	}
}

var vfTinySizes = []int64{200, 600, 2000, 8000}

func vfTinyTraits(mux bool) logstore.Traits {
	tr := logstore.Traits{Name: "tan-tiny", Tan: true, Tiny: true, BatchSz: 48}
	if mux {
		tr.Name = "tan-tiny-mux"
		tr.Mux = true
	}
	return tr
}

func vfAllowKnown(sig string, n int) func(t *rapid.T) bool {
	return func(t *rapid.T) bool {
		if !vfhelp.IsKnown(sig) {
			return true
		}
		return rapid.IntRange(0, n-1).Draw(t, "allow-known") == 0
	}
}

// TestVF_C09_TanTiny: the C09 model-based check on tan (regular and, in a third
// of the cases, multiplexed) with log files of a few hundred bytes.
func TestVF_C09_TanTiny(t *testing.T) {
	st := vfhelp.NewStats("TestVF_C09_TanTiny", logstore.C09Rule+"; tan MaxLogFileSize drawn from 200..8000 bytes")
	defer st.Flush()
	cfg := logstore.GenCfg{MaxEntries: 200, MinOps: 5, MaxOps: 40, BigCmd: true, NewLife: true,
		Weights: map[logstore.OpKind]int{logstore.OpRemoveNode: 5}}
	if vfhelp.Thorough() {
		cfg.MaxOps = 60
	}
	cfg.AllowS3 = vfAllowKnown(logstore.SigS3, 6)
	cfg.AllowS2 = vfAllowKnown(logstore.SigS2, 4)
	rapid.Check(t, func(t *rapid.T) {
		max := rapid.SampledFrom(vfTinySizes).Draw(t, "maxlogfilesize")
		mux := rapid.IntRange(0, 2).Draw(t, "mux") == 0
		st.Count("maxlogfilesize-"+map[int64]string{200: "200", 600: "600", 2000: "2000", 8000: "8000"}[max], 1)
		logstore.RunC09(t, st, vfTinyTraits(mux), vfTinyOpener(max, mux), cfg)
	})
}

// TestVF_C10_Crash_TanTiny: crash-point enumeration with rollover, index save
// and file compaction inside the workload.
func TestVF_C10_Crash_TanTiny(t *testing.T) {
	st := vfhelp.NewStats("TestVF_C10_Crash_TanTiny", logstore.C10CrashRule+"; tan MaxLogFileSize drawn from 200..8000 bytes")
	defer st.Flush()
	cfg := logstore.CrashCfg{
		Gen: logstore.GenCfg{MaxEntries: 100, MinOps: 5, MaxOps: 25, BigCmd: true,
			Weights: map[logstore.OpKind]int{logstore.OpImport: 6, logstore.OpRemoveNode: 5,
				logstore.OpRemoveEntries: 10, logstore.OpSaveSnapshots: 12}},
		Exhaustive: vfhelp.Thorough(),
		MaxPoints:  64,
	}
	st.Set("exhaustive", cfg.Exhaustive)
	rapid.Check(t, func(t *rapid.T) {
		max := rapid.SampledFrom(vfTinySizes).Draw(t, "maxlogfilesize")
		mux := rapid.IntRange(0, 2).Draw(t, "mux") == 0
		c := cfg
		// two thirds of the workloads avoid the trigger of known finding S9 so
		// that the search continues behind it
		c.Gen.NoCommitOnly = rapid.IntRange(0, 2).Draw(t, "no-commit-only") != 0
		logstore.RunC10Crash(t, st, vfTinyTraits(mux), vfTinyOpener(max, mux), c)
	})
}

// TestVF_C10_ReproS9Rollover is the minimal reproduction of known finding S9
// in its rollover form, without rapid and without any fault during a call: a
// commit-only hard-state update is written without fsync, the next write rolls
// the log file over (the index of the old file is made durable, the old file is
// closed without fsync), power is cut later.
func TestVF_C10_ReproS9Rollover(t *testing.T) {
	st := vfhelp.NewStats("TestVF_C10_ReproS9Rollover", "fixed reproduction of S9 (tan log rollover)")
	defer st.Flush()
	st.Set("exhaustive", true) // fixed case(s), nothing sampled
	mem := vfs.NewStrictMem()
	open := vfTinyOpener(1<<20, false)
	db, err := open(mem)
	if err != nil {
		t.Fatalf("open: %v", err)
	}
	ents := func(first, last uint64) []pb.Entry {
		var out []pb.Entry
		for i := first; i <= last; i++ {
			out = append(out, pb.Entry{Index: i, Term: 5, Cmd: make([]byte, 40)})
		}
		return out
	}
	save := func(u pb.Update) {
		u.ShardID, u.ReplicaID = 1, 1
		if err := db.SaveRaftState([]pb.Update{u}, 2); err != nil {
			t.Fatalf("save: %v", err)
		}
	}
	save(pb.Update{State: pb.State{Term: 5, Vote: 2, Commit: 1}, EntriesToSave: ents(1, 8)}) // fsynced
	// let the log file be "full" after one more small record: MaxLogFileSize is
	// the current offset + 1 (any value is legal for the option)
	d, err := db.(*LogDB).getDB(1, 1)
	if err != nil {
		t.Fatalf("getDB: %v", err)
	}
	d.mu.Lock()
	d.opts.MaxLogFileSize = d.mu.offset + 1
	d.mu.Unlock()
	save(pb.Update{State: pb.State{Term: 5, Vote: 2, Commit: 8}}) // commit only: written, no fsync
	save(pb.Update{EntriesToSave: ents(9, 10)})                   // rolls over first, fsyncs only the new file
	// power cut
	mem.SetIgnoreSyncs(true)
	_ = db.Close()
	mem.ResetToSyncedState()
	mem.SetIgnoreSyncs(false)
	db, err = open(mem)
	if err != nil {
		t.Fatalf("reopen: %v", err)
	}
	defer db.Close()
	rs, err := db.ReadRaftState(1, 1, 0)
	t.Logf("ReadRaftState after power cut: %+v, err %v", rs, err)
	st.Case([]byte("s9-rollover"), true, "repro")
	if err != nil || rs.State.Term != 5 || rs.State.Vote != 2 {
		st.Known(t, logstore.SigS9, "acknowledged hard state {term 5 vote 2 commit 8} (term and vote fsynced with commit 1); "+
			"after rollover and power cut ReadRaftState = %+v, err %v", rs, err)
	}
}
