package raft_test

// E8 entrylog — property C19 "The raft core's view of its log always equals the
// logical log".
//
// A real raft.entryLog (+ inMemory) is driven through the real raft.Peer
// GetUpdate/Commit plumbing over the real logdb.LogReader over the real sharded
// Pebble ILogDB on an in-memory file system, with exactly the call sequences
// that raft.go (handleReplicateMessage, handleHeartbeatMessage, restore,
// appendEntries, tryCommit, tick), node.go (processSnapshot, processRaftUpdate,
// removeLog, doSave) and engine.go (processSteps) perform, and after EVERY step
// all answers of the log are compared with a reference model (one slice of
// entries + marker + cursors).

import (
	"bytes"
	"errors"
	"fmt"
	"os"
	"reflect"
	"runtime/debug"
	"sort"
	"strings"
	"sync"
	"testing"

	"github.com/lni/dragonboat/v4/config"
	"github.com/lni/dragonboat/v4/internal/logdb"
	"github.com/lni/dragonboat/v4/internal/raft"
	"github.com/lni/dragonboat/v4/internal/vfhelp"
	"github.com/lni/dragonboat/v4/internal/vfs"
	"github.com/lni/dragonboat/v4/logger"
	"github.com/lni/dragonboat/v4/raftio"
	pb "github.com/lni/dragonboat/v4/raftpb"
	"pgregory.net/rapid"
)

// ---------------------------------------------------------------------------
// the real store: one sharded Pebble ILogDB per process on a MemFS; every case
// uses a fresh shardID so that cases are independent.
// ---------------------------------------------------------------------------

var elStore struct {
	mu    sync.Mutex
	db    raftio.ILogDB
	used  int
	shard uint64
}

func elOpenStore() raftio.ILogDB {
	fs := vfs.NewMemFS()
	expert := config.GetDefaultExpertConfig()
	expert.LogDB = config.GetTinyMemLogDBConfig()
	expert.LogDB.Shards = 1
	expert.FS = fs
	cfg := config.NodeHostConfig{Expert: expert}
	dir := "/el/db"
	if err := fs.MkdirAll(dir, 0o755); err != nil {
		panic(err)
	}
	db, err := logdb.NewDefaultLogDB(cfg, nil, []string{dir}, []string{dir})
	if err != nil {
		panic(err)
	}
	return db
}

// elAcquire returns the store and a shardID never used before on it.
func elAcquire() (raftio.ILogDB, uint64) {
	elStore.mu.Lock()
	defer elStore.mu.Unlock()
	if elStore.db == nil || elStore.used >= 2000 {
		if elStore.db != nil {
			_ = elStore.db.Close()
		}
		elStore.db = elOpenStore()
		elStore.used = 0
	}
	elStore.used++
	elStore.shard++
	return elStore.db, elStore.shard
}

type elCompactor struct{}

func (elCompactor) Compact(uint64) error { return nil }

// ---------------------------------------------------------------------------
// reference model
// ---------------------------------------------------------------------------

type elModel struct {
	// logical log: marker (floor, floorTerm) + ents, ents[k].Index == floor+1+k.
	// Compaction never removes anything from ents, it only moves rdMarker.
	floor     uint64
	floorTerm uint64
	ents      []pb.Entry
	committed uint64
	processed uint64
	savedTo   uint64
	pendSnap  *pb.Snapshot // restored snapshot not yet acknowledged (StableSnapshotTo)
	// persistent tier as the LogReader must see it
	rdMarker     uint64
	rdMarkerTerm uint64
	rdLast       uint64
	rdSnap       uint64
	// (index -> entry) pairs visible in the store, maintained from the writes
	// the harness ACTUALLY issued (SaveRaftState / RemoveEntriesTo)
	durable   map[uint64]pb.Entry
	dbSnapIdx uint64
	// highest (index,term) ever handed out for persistence
	handedForSave map[[2]uint64]bool
}

func (m *elModel) last() uint64 { return m.floor + uint64(len(m.ents)) }

func (m *elModel) at(i uint64) pb.Entry { return m.ents[i-m.floor-1] }

func (m *elModel) first() uint64 {
	if m.pendSnap != nil {
		return m.pendSnap.Index + 1
	}
	return m.rdMarker + 1
}

// rawTerm is the term of the logical log at i regardless of availability.
func (m *elModel) rawTerm(i uint64) (uint64, bool) {
	if i == m.floor {
		return m.floorTerm, true
	}
	if i > m.floor && i <= m.last() {
		return m.at(i).Term, true
	}
	return 0, false
}

// term is what entryLog.term must answer: 0 outside [first-1, last].
func (m *elModel) term(i uint64) uint64 {
	if i+1 < m.first() || i > m.last() {
		return 0
	}
	t, ok := m.rawTerm(i)
	if !ok {
		panic(fmt.Sprintf("model: no term for in-range index %d (floor %d first %d last %d)",
			i, m.floor, m.first(), m.last()))
	}
	return t
}

func (m *elModel) slice(low uint64, high uint64) []pb.Entry {
	if low >= high {
		return nil
	}
	return m.ents[low-m.floor-1 : high-m.floor-1]
}

// elLimit is the size rule shared by LogReader.Entries and limitSize: the
// maximal prefix whose SizeUpperLimit sum is <= maxSize, but at least one.
func elLimit(ents []pb.Entry, maxSize uint64) []pb.Entry {
	if len(ents) == 0 {
		return ents
	}
	total := uint64(0)
	n := 0
	for i := range ents {
		total += uint64(ents[i].SizeUpperLimit())
		if i > 0 && total > maxSize {
			break
		}
		n++
	}
	return ents[:n]
}

// getEntries is the expected answer of entryLog.getEntries for low <= high <= last+1.
func (m *elModel) getEntries(low uint64, high uint64, maxSize uint64) ([]pb.Entry, error) {
	if m.pendSnap != nil && m.last() == m.floor {
		return nil, raft.ErrCompacted
	}
	if low < m.first() {
		return nil, raft.ErrCompacted
	}
	if low == high {
		return nil, nil
	}
	return elLimit(m.slice(low, high), maxSize), nil
}

func (m *elModel) toSave() []pb.Entry {
	if m.savedTo >= m.last() {
		return nil
	}
	return m.slice(m.savedTo+1, m.last()+1)
}

func (m *elModel) applyRange() (uint64, uint64) {
	low := m.processed + 1
	if f := m.first(); f > low {
		low = f
	}
	return low, m.committed + 1
}

func (m *elModel) hasToApply() bool {
	low, high := m.applyRange()
	return high > low
}

func (m *elModel) toApply(limit uint64) []pb.Entry {
	low, high := m.applyRange()
	if high <= low {
		return nil
	}
	return elLimit(m.slice(low, high), limit)
}

func (m *elModel) durableSame(e pb.Entry) bool {
	d, ok := m.durable[e.Index]
	return ok && elSameEntry(d, e)
}

// applies a SaveRaftState of ud to the durable image.
func (m *elModel) save(ud pb.Update) {
	if ud.Snapshot.Index > 0 && ud.Snapshot.Index > m.dbSnapIdx {
		m.dbSnapIdx = ud.Snapshot.Index
		for i := range m.durable {
			if i > ud.Snapshot.Index {
				delete(m.durable, i)
			}
		}
	}
	if len(ud.EntriesToSave) > 0 {
		f := ud.EntriesToSave[0].Index
		for i := range m.durable {
			if i >= f {
				delete(m.durable, i)
			}
		}
		for _, e := range ud.EntriesToSave {
			m.durable[e.Index] = elCopyEntry(e)
		}
	}
}

func elCopyEntry(e pb.Entry) pb.Entry {
	c := e
	if e.Cmd != nil {
		c.Cmd = append([]byte(nil), e.Cmd...)
	}
	return c
}

func elCopyEntries(ents []pb.Entry) []pb.Entry {
	out := make([]pb.Entry, len(ents))
	for i := range ents {
		out[i] = elCopyEntry(ents[i])
	}
	return out
}

func elSameEntry(a pb.Entry, b pb.Entry) bool {
	return a.Index == b.Index && a.Term == b.Term && a.Type == b.Type &&
		a.Key == b.Key && a.ClientID == b.ClientID && a.SeriesID == b.SeriesID &&
		a.RespondedTo == b.RespondedTo && bytes.Equal(a.Cmd, b.Cmd)
}

func elSameEntries(a []pb.Entry, b []pb.Entry) bool {
	if len(a) != len(b) {
		return false
	}
	for i := range a {
		if !elSameEntry(a[i], b[i]) {
			return false
		}
	}
	return true
}

func elBrief(ents []pb.Entry) string {
	var sb strings.Builder
	sb.WriteString("[")
	for i, e := range ents {
		if i > 0 {
			sb.WriteString(" ")
		}
		fmt.Fprintf(&sb, "%d/t%d", e.Index, e.Term)
		if len(e.Cmd) > 0 {
			fmt.Fprintf(&sb, "+%d", len(e.Cmd))
		}
	}
	sb.WriteString("]")
	return sb.String()
}

// ---------------------------------------------------------------------------
// harness state: the model plus the simulated surroundings of the log (raft
// role and term universe, engine cycle, RSM / snapshot worker)
// ---------------------------------------------------------------------------

type elUEntry struct {
	e          pb.Entry
	parentTerm uint64
}

type elBlock struct {
	start uint64
	end   uint64
	own   bool
}

type elOutstanding struct {
	ud         pb.Update
	saveCopy   []pb.Entry
	stableIdx  uint64
	stableTerm uint64
	truncBelow bool // a conflicting truncation at or below stableIdx happened since
	restored   bool // a snapshot restore happened since
}

type elHanded struct {
	alias []pb.Entry
	copy  []pb.Entry
}

type elRetained struct {
	what  string
	alias []pb.Entry
	copy  []pb.Entry
}

type elGap struct{ lo, hi uint64 }

type elH struct {
	t       *rapid.T
	st      *vfhelp.Stats
	m       *elModel
	el      *raft.ElHandle
	rd      *logdb.LogReader
	db      raftio.ILogDB
	shardID uint64
	tun     raft.ElTunables

	// raft role / term universe (log matching: an (index,term) pair identifies
	// one entry and one parent everywhere in the cluster)
	leader     bool
	leaderTerm uint64
	maxTerm    uint64
	universe   map[[2]uint64]elUEntry
	idxTerms   map[uint64][]uint64
	blocks     map[uint64]*elBlock
	hbMax      uint64
	nextKey    uint64

	// node/engine surroundings
	pushed     uint64 // node.pushedIndex
	rsmApplied uint64 // sm.GetLastApplied()
	gaps       []elGap
	compactTo  uint64 // ss.compactLogTo, 0 = none
	queue      []*elOutstanding
	handed     []*elHanded

	readerStale bool
	retained    []*elRetained
	// the in-memory window was emptied by ONE apply acknowledgement while it
	// was not in shrunk state (next append reuses the window's slice)
	fullTrimFresh bool
	forceMore     bool
	forceApplyAll bool
	// savedLoose: from the first pipelined GetUpdate until the next synchronous
	// cycle has saved and acknowledged entries, see checkAllInner
	savedLoose bool

	trace  []string
	labels map[string]bool
	nt     bool
}

const elReplicaID = 1

func (h *elH) logf(format string, args ...interface{}) {
	h.trace = append(h.trace, fmt.Sprintf(format, args...))
}

func (h *elH) label(l string) { h.labels[l] = true }

func (h *elH) fail(sig string, format string, args ...interface{}) {
	msg := fmt.Sprintf(format, args...)
	vfhelp.Fail(h.t, sig, "%s\ntrace:\n  %s\nmodel: %s", msg, strings.Join(h.trace, "\n  "), h.describe())
}

func (h *elH) describe() string {
	m := h.m
	ps := uint64(0)
	if m.pendSnap != nil {
		ps = m.pendSnap.Index
	}
	return fmt.Sprintf("floor=%d/t%d log=%s committed=%d processed=%d savedTo=%d pendSnap=%d reader(marker=%d/t%d last=%d snap=%d) pushed=%d rsmApplied=%d queue=%d | code: first=%d last=%d committed=%d processed=%d inmem(marker=%d savedTo=%d len=%d)",
		m.floor, m.floorTerm, elBrief(m.ents), m.committed, m.processed, m.savedTo, ps,
		m.rdMarker, m.rdMarkerTerm, m.rdLast, m.rdSnap, h.pushed, h.rsmApplied, len(h.queue),
		h.el.FirstIndex(), h.el.LastIndex(), h.el.Committed(), h.el.Processed(),
		h.el.InMemMarker(), h.el.InMemSavedTo(), h.el.InMemLen())
}

// guard runs f, converting a panic of the code under test into a violation
// (rapid's own control-flow panics pass through untouched).
func (h *elH) guard(op string, f func()) {
	defer func() {
		if r := recover(); r != nil {
			if tp := reflect.TypeOf(r); tp != nil {
				if n := tp.String(); strings.HasPrefix(n, "rapid.") || strings.HasPrefix(n, "*rapid.") {
					panic(r)
				}
			}
			h.fail("panic-"+op, "code under test panicked in %s: %v", op, r)
		}
	}()
	f()
}

// universe bookkeeping -------------------------------------------------------

func (h *elH) reg(e pb.Entry, parentTerm uint64) {
	k := [2]uint64{e.Index, e.Term}
	if u, ok := h.universe[k]; ok {
		if u.parentTerm != parentTerm || !elSameEntry(u.e, e) {
			h.t.Fatalf("harness bug: (index,term) pair %v registered twice with different content", k)
		}
		return
	}
	h.universe[k] = elUEntry{e: elCopyEntry(e), parentTerm: parentTerm}
	h.idxTerms[e.Index] = append(h.idxTerms[e.Index], e.Term)
	if b, ok := h.blocks[e.Term]; !ok {
		h.blocks[e.Term] = &elBlock{start: e.Index, end: e.Index}
	} else if e.Index == b.end+1 {
		b.end = e.Index
	} else if e.Index > b.end+1 || e.Index < b.start {
		h.t.Fatalf("harness bug: entries of term %d not contiguous: block [%d,%d], new index %d",
			e.Term, b.start, b.end, e.Index)
	}
	if e.Term > h.maxTerm {
		h.maxTerm = e.Term
	}
}

func (h *elH) newPayload() pb.Entry {
	t := h.t
	h.nextKey++
	e := pb.Entry{Type: pb.ApplicationEntry, Key: h.nextKey}
	switch rapid.IntRange(0, 9).Draw(t, "payloadKind") {
	case 0:
		// empty
	case 1:
		e.Type = pb.ConfigChangeEntry
		e.Cmd = []byte{1, 2, 3}
	case 2:
		e.Type = pb.EncodedEntry
		e.Cmd = rapid.SliceOfN(rapid.Byte(), 1, 12).Draw(t, "cmd")
	case 3:
		e.Cmd = rapid.SliceOfN(rapid.Byte(), 40, 200).Draw(t, "bigcmd")
	default:
		e.Cmd = rapid.SliceOfN(rapid.Byte(), 1, 24).Draw(t, "cmd")
		e.ClientID = uint64(rapid.IntRange(0, 3).Draw(t, "client"))
		e.SeriesID = uint64(rapid.IntRange(0, 3).Draw(t, "series"))
	}
	return e
}

type elCand struct {
	term   uint64
	known  bool
	weight int
	kind   string
}

// chooseTerm picks the term of a follower-received entry at index j whose
// predecessor on the sender's log has term q. avoid (if != 0) is excluded.
func (h *elH) chooseTerm(j uint64, q uint64, avoid uint64, curTermAtJ uint64) (elCand, bool) {
	var cands []elCand
	if q > 0 {
		if b, ok := h.blocks[q]; ok {
			if _, known := h.universe[[2]uint64{j, q}]; known {
				cands = append(cands, elCand{term: q, known: true, weight: 4, kind: "same-known"})
			} else if !b.own && j == b.end+1 {
				cands = append(cands, elCand{term: q, weight: 3, kind: "same-extend"})
			}
		}
	}
	for _, tt := range h.idxTerms[j] {
		if tt == q {
			continue
		}
		if u := h.universe[[2]uint64{j, tt}]; u.parentTerm == q {
			cands = append(cands, elCand{term: tt, known: true, weight: 6, kind: "fork-known"})
		}
	}
	cands = append(cands, elCand{term: h.maxTerm + 1, weight: 4, kind: "fresh-high"})
	cands = append(cands, elCand{term: h.maxTerm + 2, weight: 1, kind: "fresh-high"})
	if curTermAtJ > q+1 {
		for tt := q + 1; tt < curTermAtJ; tt++ {
			if _, used := h.blocks[tt]; !used {
				cands = append(cands, elCand{term: tt, weight: 3, kind: "fresh-low"})
				break
			}
		}
	}
	total := 0
	var usable []elCand
	for _, c := range cands {
		if c.term == avoid || c.term < q || c.term == 0 {
			continue
		}
		usable = append(usable, c)
		total += c.weight
	}
	if len(usable) == 0 {
		return elCand{}, false
	}
	x := rapid.IntRange(0, total-1).Draw(h.t, "termChoice")
	for _, c := range usable {
		if x < c.weight {
			return c, true
		}
		x -= c.weight
	}
	return usable[len(usable)-1], true
}

// ---------------------------------------------------------------------------
// set up
// ---------------------------------------------------------------------------

func elNewHarness(t *rapid.T, st *vfhelp.Stats) *elH {
	db, shard := elAcquire()
	h := &elH{
		t: t, st: st, db: db, shardID: shard,
		universe: make(map[[2]uint64]elUEntry),
		idxTerms: make(map[uint64][]uint64),
		blocks:   make(map[uint64]*elBlock),
		labels:   make(map[string]bool),
	}
	h.tun.EntrySliceSize = uint64(rapid.SampledFrom([]int{2, 3, 4, 8, 512}).Draw(t, "entrySliceSize"))
	h.tun.MinEntrySliceSize = uint64(rapid.IntRange(1, int(h.tun.EntrySliceSize)-1).Draw(t, "minEntrySliceSize"))
	if h.tun.EntrySliceSize == 512 {
		h.tun.MinEntrySliceSize = 96
	}
	h.tun.MaxEntriesToApplySize = uint64(rapid.SampledFrom([]int{1, 130, 300, 700, 64 << 20}).Draw(t, "maxApplySize"))
	raft.ElSetTunables(h.tun)
	h.logf("tunables %+v", h.tun)

	m := &elModel{durable: make(map[uint64]pb.Entry), handedForSave: make(map[[2]uint64]bool)}
	h.m = m
	h.rd = logdb.NewLogReader(shard, elReplicaID, db)
	h.rd.SetCompactor(elCompactor{})

	// initial state: brand new replica, or a restarted one (node.replayLog)
	restarted := rapid.IntRange(0, 2).Draw(t, "restarted") == 0
	if restarted {
		h.label("init-restarted")
		s := uint64(rapid.IntRange(0, 6).Draw(t, "initSnapshot"))
		n := uint64(rapid.IntRange(0, 8).Draw(t, "initEntries"))
		term := uint64(1)
		var sTerm uint64
		if s > 0 {
			sTerm = term
		}
		m.floor, m.floorTerm = s, sTerm
		prev := sTerm
		var ents []pb.Entry
		for i := s + 1; i <= s+n; i++ {
			if rapid.IntRange(0, 3).Draw(t, "initTermBump") == 0 {
				term++
			}
			e := h.newPayload()
			e.Index, e.Term = i, term
			h.reg(e, prev)
			prev = term
			ents = append(ents, e)
		}
		if s > 0 {
			h.universe[[2]uint64{s, sTerm}] = elUEntry{e: pb.Entry{Index: s, Term: sTerm}}
			h.idxTerms[s] = append(h.idxTerms[s], sTerm)
			if _, ok := h.blocks[sTerm]; !ok {
				h.blocks[sTerm] = &elBlock{start: s, end: s}
			}
			if b := h.blocks[sTerm]; b.start > s {
				b.start = s
			}
		}
		if term > h.maxTerm {
			h.maxTerm = term
		}
		m.ents = elCopyEntries(ents)
		commit := s + uint64(rapid.IntRange(0, int(n)).Draw(t, "initCommit"))
		ud := pb.Update{ShardID: shard, ReplicaID: elReplicaID,
			State:         pb.State{Term: h.maxTerm, Vote: 2, Commit: commit},
			EntriesToSave: ents}
		if s > 0 {
			ud.Snapshot = pb.Snapshot{Index: s, Term: sTerm, ShardID: shard,
				Membership: pb.Membership{Addresses: map[uint64]string{1: "a1"}}}
		}
		if commit > 0 || len(ents) > 0 || s > 0 {
			if err := db.SaveRaftState([]pb.Update{ud}, 1); err != nil {
				t.Fatalf("VFINCONCLUSIVE initial SaveRaftState: %v", err)
			}
			m.save(ud)
		}
		// node.replayLog
		if s > 0 {
			ss, err := db.GetSnapshot(shard, elReplicaID)
			if err != nil || ss.Index != s {
				t.Fatalf("VFINCONCLUSIVE GetSnapshot: %v %d", err, ss.Index)
			}
			if err := h.rd.ApplySnapshot(ss); err != nil {
				t.Fatalf("VFINCONCLUSIVE initial ApplySnapshot: %v", err)
			}
			m.rdSnap = s
		}
		rs, err := db.ReadRaftState(shard, elReplicaID, s)
		if err == nil {
			if !pb.IsEmptyState(rs.State) {
				h.rd.SetState(rs.State)
			}
			h.rd.SetRange(rs.FirstIndex, rs.EntryCount)
		} else if !errors.Is(err, raftio.ErrNoSavedLog) {
			t.Fatalf("VFINCONCLUSIVE ReadRaftState: %v", err)
		}
		m.rdMarker, m.rdMarkerTerm, m.rdLast = s, sTerm, s+n
		m.committed = s // raised by LoadState below
		m.processed = s
		m.savedTo = s + n
		for _, e := range ents {
			m.handedForSave[[2]uint64{e.Index, e.Term}] = true
		}
		h.pushed, h.rsmApplied = s, s
		h.hbMax = 0
		rl := uint64(0)
		if rapid.IntRange(0, 2).Draw(t, "rateLimited") == 0 {
			rl = uint64(rapid.SampledFrom([]int{64, 2048, 1 << 30}).Draw(t, "maxInMem"))
		}
		h.guard("newEntryLog", func() {
			h.el = raft.ElNew(h.rd, rl, shard, elReplicaID)
			st, _ := h.rd.NodeState()
			if !pb.IsEmptyState(st) {
				h.el.LoadState(st)
			}
		})
		m.committed = commit
		if len(ents) == 0 && s == 0 {
			m.committed = 0
		}
		h.logf("init restarted snapshot=%d entries=%s commit=%d", s, elBrief(ents), commit)
	} else {
		h.label("init-new")
		rl := uint64(0)
		if rapid.IntRange(0, 2).Draw(t, "rateLimited") == 0 {
			rl = uint64(rapid.SampledFrom([]int{64, 2048, 1 << 30}).Draw(t, "maxInMem"))
		}
		h.guard("newEntryLog", func() {
			h.el = raft.ElNew(h.rd, rl, shard, elReplicaID)
		})
		h.logf("init new")
	}
	h.el.SetTerm(h.maxTerm)
	return h
}

// ---------------------------------------------------------------------------
// the oracle: compare every answer of the log with the model
// ---------------------------------------------------------------------------

func (h *elH) errName(err error) string {
	switch {
	case err == nil:
		return "nil"
	case errors.Is(err, raft.ErrCompacted):
		return "ErrCompacted"
	case errors.Is(err, raft.ErrUnavailable):
		return "ErrUnavailable"
	default:
		return err.Error()
	}
}

func (h *elH) pickSize(ents []pb.Entry) uint64 {
	t := h.t
	switch rapid.IntRange(0, 5).Draw(t, "sizeKind") {
	case 0:
		return 0
	case 1:
		return ^uint64(0)
	case 2:
		return uint64(rapid.IntRange(0, 2000).Draw(t, "size"))
	default:
		if len(ents) == 0 {
			return uint64(rapid.IntRange(0, 400).Draw(t, "size"))
		}
		k := rapid.IntRange(1, len(ents)).Draw(t, "sizeAtK")
		total := int64(0)
		for i := 0; i < k; i++ {
			total += int64(ents[i].SizeUpperLimit())
		}
		total += int64(rapid.IntRange(-1, 1).Draw(t, "sizeDelta"))
		if total < 0 {
			total = 0
		}
		return uint64(total)
	}
}

func (h *elH) checkAll(where string) {
	h.guard("check-"+where, func() { h.checkAllInner(where) })
}

func (h *elH) checkAllInner(where string) {
	m, el, t := h.m, h.el, h.t
	first, last := m.first(), m.last()
	if got := el.FirstIndex(); got != first {
		h.fail("firstindex-mismatch", "after %s: firstIndex()=%d, model %d", where, got, first)
	}
	if got := el.LastIndex(); got != last {
		h.fail("lastindex-mismatch", "after %s: lastIndex()=%d, model %d", where, got, last)
	}
	if got := el.Committed(); got != m.committed {
		h.fail("committed-mismatch", "after %s: committed=%d, model %d", where, got, m.committed)
	}
	if got := el.Processed(); got != m.processed {
		h.fail("processed-mismatch", "after %s: processed=%d, model %d", where, got, m.processed)
	}
	lt, err := el.LastTerm()
	if err != nil || lt != m.term(last) {
		h.fail("lastterm-mismatch", "after %s: lastTerm()=%d,%v, model %d", where, lt, err, m.term(last))
	}
	// term / matchTerm over a window around the whole log
	lo := uint64(0)
	if first > 4 {
		lo = first - 4
	}
	hi := last + 2
	step := uint64(1)
	for i := lo; i <= hi; i += step {
		got, err := el.Term(i)
		want := m.term(i)
		if err != nil || got != want {
			h.fail("term-mismatch", "after %s: term(%d)=%d,%s, model %d", where, i, got, h.errName(err), want)
		}
	}
	{
		i := lo + uint64(rapid.IntRange(0, int(hi-lo)).Draw(t, "matchIdx"))
		tt := m.term(i)
		if rapid.IntRange(0, 2).Draw(t, "matchOther") == 0 {
			tt = uint64(rapid.IntRange(0, int(h.maxTerm)+1).Draw(t, "matchTerm"))
		}
		ok, err := el.MatchTerm(i, tt)
		if err != nil || ok != (m.term(i) == tt) {
			h.fail("matchterm-mismatch", "after %s: matchTerm(%d,%d)=%v,%s, model term %d",
				where, i, tt, ok, h.errName(err), m.term(i))
		}
		ui := uint64(rapid.IntRange(0, int(last)+2).Draw(t, "utdIdx"))
		ut := uint64(rapid.IntRange(0, int(h.maxTerm)+1).Draw(t, "utdTerm"))
		lterm := m.term(last)
		want := ut > lterm || (ut == lterm && ui >= last)
		got, err := el.UpToDate(ui, ut)
		if err != nil || got != want {
			h.fail("uptodate-mismatch", "after %s: upToDate(%d,%d)=%v,%s, model %v (last %d/t%d)",
				where, ui, ut, got, h.errName(err), want, last, lterm)
		}
	}
	// entriesToSave
	if got, want := el.EntriesToSave(), m.toSave(); !h.savedLoose {
		if !elSameEntries(got, want) {
			h.fail("entries-to-save-mismatch", "after %s: entriesToSave()=%s, model %s (model savedTo %d)",
				where, elBrief(got), elBrief(want), m.savedTo)
		}
	} else {
		// Acknowledgements were (or may be) delivered late in this stretch of
		// the case. No caller of dragonboat does that (engine.processSteps
		// commits every Update before the node is stepped again), and the
		// property does not fix WHICH late acknowledgement has to be honoured:
		// one may only count if what it names is what the store durably holds.
		// So the exact cursor is not compared; required is that entriesToSave()
		// is a suffix (s, last] of the logical log and - invariant A below -
		// that everything at or below s really is durable. The model adopts s.
		if len(got) > 0 {
			f := got[0].Index
			if f <= m.floor || f > last || got[len(got)-1].Index != last ||
				!elSameEntries(got, m.slice(f, last+1)) {
				h.fail("entries-to-save-not-a-suffix", "after %s: entriesToSave()=%s is not a suffix of the log %s",
					where, elBrief(got), elBrief(m.ents))
			}
			m.savedTo = f - 1
		} else {
			m.savedTo = last
		}
	}
	// invariant A: nothing at or below savedTo differs from what is durable
	{
		saved := last
		if ts := el.EntriesToSave(); len(ts) > 0 {
			saved = ts[0].Index - 1
		}
		from := m.floor
		if m.rdMarker > from {
			from = m.rdMarker
		}
		for i := from + 1; i <= saved && i <= last; i++ {
			if !m.durableSame(m.at(i)) {
				d, ok := m.durable[i]
				h.fail("saved-not-durable", "after %s: index %d counts as saved (entriesToSave starts at %d) but the store holds %v (present=%v), log has %d/t%d",
					where, i, saved+1, elBrief([]pb.Entry{d}), ok, i, m.at(i).Term)
			}
		}
	}
	// hasEntriesToApply / entriesToApply
	if got, want := el.HasEntriesToApply(), m.hasToApply(); got != want {
		h.fail("has-entries-to-apply-mismatch", "after %s: hasEntriesToApply()=%v, model %v", where, got, want)
	}
	{
		got, err := el.EntriesToApply()
		want := m.toApply(h.tun.MaxEntriesToApplySize)
		if err != nil || !elSameEntries(got, want) {
			h.fail("entries-to-apply-mismatch", "after %s: entriesToApply()=%s,%s, model %s",
				where, elBrief(got), h.errName(err), elBrief(want))
		}
	}
	// getEntries / entries for generated ranges and size limits
	if last+1 >= lo {
		low := lo + uint64(rapid.IntRange(0, int(last+1-lo)).Draw(t, "geLow"))
		if low == 0 {
			low = 1
		}
		if low <= last+1 {
			high := low + uint64(rapid.IntRange(0, int(last+1-low)).Draw(t, "geHigh"))
			var full []pb.Entry
			if low > m.floor {
				full = m.slice(low, high)
			}
			sz := h.pickSize(full)
			got, err := el.GetEntries(low, high, sz)
			want, werr := m.getEntries(low, high, sz)
			if !errors.Is(err, werr) || (err == nil) != (werr == nil) || !elSameEntries(got, want) {
				h.fail("getentries-mismatch", "after %s: getEntries(%d,%d,%d)=%s,%s, model %s,%s",
					where, low, high, sz, elBrief(got), h.errName(err), elBrief(want), h.errName(werr))
			}
			got, err = el.Entries(low, sz)
			want, werr = nil, nil
			if low <= last {
				want, werr = m.getEntries(low, last+1, sz)
			}
			if !errors.Is(err, werr) || (err == nil) != (werr == nil) || !elSameEntries(got, want) {
				h.fail("entries-mismatch", "after %s: entries(%d,%d)=%s,%s, model %s,%s",
					where, low, sz, elBrief(got), h.errName(err), elBrief(want), h.errName(werr))
			}
			// LogQuery path
			if low < high {
				got, err = el.GetCommittedEntries(low, high, sz)
				want, werr = nil, nil
				if low < first || low > m.committed {
					werr = raft.ErrCompacted
				} else {
					hh := high
					if m.committed+1 < hh {
						hh = m.committed + 1
					}
					if low != hh {
						want, werr = m.getEntries(low, hh, sz)
					}
				}
				if !errors.Is(err, werr) || (err == nil) != (werr == nil) || !elSameEntries(got, want) {
					h.fail("getcommittedentries-mismatch", "after %s: getCommittedEntries(%d,%d,%d)=%s,%s, model %s,%s",
						where, low, high, sz, elBrief(got), h.errName(err), elBrief(want), h.errName(werr))
				}
			}
		}
	}
	// the whole available log in one read
	if first <= last && !(m.pendSnap != nil && last == m.floor) {
		got, err := el.GetEntries(first, last+1, ^uint64(0))
		if err != nil || !elSameEntries(got, m.slice(first, last+1)) {
			h.fail("getentries-mismatch", "after %s: getEntries(%d,%d,max)=%s,%s, model %s",
				where, first, last+1, elBrief(got), h.errName(err), elBrief(m.slice(first, last+1)))
		}
		h.retain("getEntries() result", got)
	}
	// uncommitted entries held in memory (rate limit accounting): the part of
	// (committed, last] that is inside the in-memory window
	{
		got := el.GetUncommittedEntries()
		var want []pb.Entry
		from := m.committed + 1
		if mk := el.InMemMarker(); mk > from {
			from = mk
		}
		if from <= last && el.InMemLen() > 0 {
			want = m.slice(from, last+1)
		}
		if !elSameEntries(got, want) {
			h.fail("getuncommitted-mismatch", "after %s: getUncommittedEntries()=%s, model %s",
				where, elBrief(got), elBrief(want))
		}
	}
	// snapshot()
	{
		want := m.rdSnap
		if m.pendSnap != nil {
			want = m.pendSnap.Index
		}
		if got := el.Snapshot().Index; got != want {
			h.fail("snapshot-mismatch", "after %s: snapshot().Index=%d, model %d", where, got, want)
		}
	}
	// HasUpdate consistency (entries to save, entries to apply, pending snapshot)
	{
		if (len(m.toSave()) > 0 || m.pendSnap != nil || m.hasToApply()) && !el.HasUpdate(true) {
			h.fail("hasupdate-false", "after %s: HasUpdate(true)=false with work pending", where)
		}
		if (len(m.toSave()) > 0 || m.pendSnap != nil) && !el.HasUpdate(false) {
			h.fail("hasupdate-false", "after %s: HasUpdate(false)=false with work pending", where)
		}
	}
	// persistent tier: LogReader range, term, entries against the durable image
	// (not between SaveRaftState and LogReader.Append of the same cycle, where
	// the reader legitimately still describes the previous store content)
	if !h.readerStale {
		f, l := h.rd.GetRange()
		if f != m.rdMarker+1 || l != m.rdLast {
			h.fail("reader-range-mismatch", "after %s: LogReader.GetRange()=%d,%d, model %d,%d",
				where, f, l, m.rdMarker+1, m.rdLast)
		}
		rlo := uint64(0)
		if m.rdMarker > 2 {
			rlo = m.rdMarker - 2
		}
		for i := rlo; i <= m.rdLast+1; i++ {
			got, err := h.rd.Term(i)
			switch {
			case i == m.rdMarker:
				if err != nil || got != m.rdMarkerTerm {
					h.fail("reader-term-mismatch", "after %s: LogReader.Term(%d)=%d,%s, model marker term %d",
						where, i, got, h.errName(err), m.rdMarkerTerm)
				}
			case i < m.rdMarker:
				if !errors.Is(err, raft.ErrCompacted) {
					h.fail("reader-term-mismatch", "after %s: LogReader.Term(%d)=%d,%s, want ErrCompacted",
						where, i, got, h.errName(err))
				}
			case i > m.rdLast:
				if !errors.Is(err, raft.ErrUnavailable) {
					h.fail("reader-term-mismatch", "after %s: LogReader.Term(%d)=%d,%s, want ErrUnavailable",
						where, i, got, h.errName(err))
				}
			default:
				d, ok := m.durable[i]
				if err != nil || !ok || got != d.Term {
					h.fail("reader-term-mismatch", "after %s: LogReader.Term(%d)=%d,%s, durable %d (present %v)",
						where, i, got, h.errName(err), d.Term, ok)
				}
			}
		}
		if m.rdLast > m.rdMarker {
			n := int(m.rdLast - m.rdMarker)
			low := m.rdMarker + 1 + uint64(rapid.IntRange(0, n-1).Draw(t, "rdLow"))
			high := low + 1 + uint64(rapid.IntRange(0, int(m.rdLast-low)).Draw(t, "rdHigh"))
			var full []pb.Entry
			for i := low; i < high; i++ {
				full = append(full, m.durable[i])
			}
			sz := h.pickSize(full)
			got, err := h.rd.Entries(low, high, sz)
			want := elLimit(full, sz)
			if err != nil || !elSameEntries(got, want) {
				h.fail("reader-entries-mismatch", "after %s: LogReader.Entries(%d,%d,%d)=%s,%s, durable %s",
					where, low, high, sz, elBrief(got), h.errName(err), elBrief(want))
			}
		}
		if got := h.rd.Snapshot().Index; got != m.rdSnap {
			h.fail("reader-snapshot-mismatch", "after %s: LogReader.Snapshot().Index=%d, model %d", where, got, m.rdSnap)
		}
	}
	// slices handed out earlier must never change underneath their holder
	for _, o := range h.queue {
		if !elSameEntries(o.ud.EntriesToSave, o.saveCopy) {
			h.fail("handed-out-slice-mutated", "after %s: EntriesToSave of an outstanding Update changed: %s, was %s",
				where, elBrief(o.ud.EntriesToSave), elBrief(o.saveCopy))
		}
	}
	for _, x := range h.handed {
		if !elSameEntries(x.alias, x.copy) {
			h.fail("handed-out-slice-mutated", "after %s: CommittedEntries handed out for apply changed: %s, was %s",
				where, elBrief(x.alias), elBrief(x.copy))
		}
	}
	h.checkRetained(where)
	// Hand out what a leader puts into a Replicate message for a follower that
	// only needs the in-memory window (raft.makeReplicateMessage -> entries();
	// the message sits in the transport's send queue and is serialised later
	// on another goroutine), plus the other read results, and keep them.
	if mk := el.InMemMarker(); mk >= first && mk <= last && !(m.pendSnap != nil && last == m.floor) {
		got, err := el.Entries(mk, ^uint64(0))
		if err != nil || !elSameEntries(got, m.slice(mk, last+1)) {
			h.fail("entries-mismatch", "after %s: entries(%d,max)=%s,%s, model %s",
				where, mk, elBrief(got), h.errName(err), elBrief(m.slice(mk, last+1)))
		}
		h.retain("entries() result (Replicate message)", got)
	}
	h.retain("entriesToSave() result", el.EntriesToSave())
	if ta, err := el.EntriesToApply(); err == nil {
		h.retain("entriesToApply() result", ta)
	}
}

// retain keeps a slice the log handed out together with a deep copy; the unchanged
// tree never writes to memory it has handed out (appends go beyond the handed
// out length, truncation/resize/restore allocate), so holders may keep such a
// slice for as long as they like.
func (h *elH) retain(what string, ents []pb.Entry) {
	if len(ents) == 0 {
		return
	}
	if n := len(h.retained); n > 0 {
		for _, r := range h.retained[max(0, n-3):] {
			if r.what == what && len(r.alias) == len(ents) && &r.alias[0] == &ents[0] {
				return // same memory already retained
			}
		}
	}
	h.retained = append(h.retained, &elRetained{what: what, alias: ents, copy: elCopyEntries(ents)})
	if len(h.retained) > 18 {
		h.retained = h.retained[1:]
	}
}

func (h *elH) checkRetained(where string) {
	for _, r := range h.retained {
		if !elSameEntries(r.alias, r.copy) {
			h.fail("handed-out-slice-mutated", "after %s: a slice handed out earlier (%s) changed underneath its holder: now %s, was %s",
				where, r.what, elBrief(r.alias), elBrief(r.copy))
		}
	}
}

// ---------------------------------------------------------------------------
// operations on the raft side (what raft.go does to the log)
// ---------------------------------------------------------------------------

func (h *elH) noteTruncation(ci uint64) {
	if ci <= h.m.savedTo {
		h.label("truncate-below-saved")
	}
	for _, o := range h.queue {
		if o.stableIdx > 0 && ci <= o.stableIdx {
			o.truncBelow = true
		}
	}
}

// appendToModel performs the logical effect of entryLog.append(ents) for
// ents[0].Index in (committed, last+1].
func (h *elH) appendToModel(ents []pb.Entry) {
	m := h.m
	if h.fullTrimFresh {
		h.fullTrimFresh = false
		if len(h.retained) > 0 {
			h.label("append-after-full-trim-with-slices-retained")
		}
	}
	f := ents[0].Index
	if f <= m.last() {
		h.noteTruncation(f)
		m.ents = append([]pb.Entry(nil), m.ents[:f-m.floor-1]...)
		if m.savedTo > f-1 {
			m.savedTo = f - 1
		}
	}
	m.ents = append(m.ents, elCopyEntries(ents)...)
}

func (h *elH) becomeLeader() {
	t := h.t
	h.leader = true
	h.leaderTerm = h.maxTerm + uint64(rapid.IntRange(1, 2).Draw(t, "leaderTermBump"))
	h.maxTerm = h.leaderTerm
	h.blocks[h.leaderTerm] = &elBlock{start: h.m.last() + 1, end: h.m.last(), own: true}
	h.el.SetTerm(h.leaderTerm)
	h.hbMax = 0
	h.label("become-leader")
	// raft.becomeLeader appends an empty entry
	h.leaderAppendN([]pb.Entry{{Type: pb.ApplicationEntry}}, "noop")
}

func (h *elH) leaderAppendN(ents []pb.Entry, what string) {
	m := h.m
	// raft.appendEntries
	li := h.el.LastIndex()
	prev, _ := m.rawTerm(m.last())
	for i := range ents {
		ents[i].Term = h.leaderTerm
		ents[i].Index = li + 1 + uint64(i)
	}
	for i := range ents {
		h.reg(ents[i], prev)
		prev = h.leaderTerm
	}
	h.logf("leader(t%d) append %s %s", h.leaderTerm, what, elBrief(ents))
	in := elCopyEntries(ents)
	h.guard("append", func() { h.el.Append(in) })
	h.appendToModel(ents)
}

func (h *elH) opLeaderAppend() {
	t := h.t
	if !h.leader {
		h.becomeLeader()
		h.checkAll("become-leader")
	}
	n := rapid.IntRange(1, 4).Draw(t, "nAppend")
	ents := make([]pb.Entry, n)
	for i := range ents {
		ents[i] = h.newPayload()
	}
	h.label("leader-append")
	h.leaderAppendN(ents, "propose")
}

func (h *elH) opLeaderTryCommit(where string) {
	t, m := h.t, h.m
	if !h.leader {
		return
	}
	q := uint64(rapid.IntRange(0, int(m.last())).Draw(t, "quorumMatch"))
	var ok bool
	var err error
	h.guard("trycommit", func() { ok, err = h.el.TryCommit(q, h.leaderTerm) })
	want := q > m.committed && m.term(q) == h.leaderTerm
	h.logf("%sleader tryCommit(%d,t%d) -> %v", where, q, h.leaderTerm, ok)
	if err != nil || ok != want {
		h.fail("trycommit-mismatch", "tryCommit(%d,%d)=%v,%s, model %v", q, h.leaderTerm, ok, h.errName(err), want)
	}
	if want {
		m.committed = q
		h.label("leader-commit")
	}
}

// opReplicate mirrors raft.handleReplicateMessage.
func (h *elH) opReplicate() {
	t, m := h.t, h.m
	last := m.last()
	// choose the position
	var prev uint64
	steer := "none"
	var target uint64 // when steering: cover this index again
	kinds := []string{"tail", "tail", "any", "any"}
	if m.savedTo > m.committed {
		kinds = append(kinds, "below-saved", "below-saved")
	}
	if len(h.queue) > 0 && h.queue[0].stableIdx > m.committed && !h.queue[0].truncBelow {
		kinds = append(kinds, "below-outstanding", "below-outstanding", "below-outstanding", "below-outstanding")
	}
	var preset []pb.Entry
	if hs := h.headState(); hs == 2 || hs == 3 {
		kinds = append(kinds, "resurrect-outstanding", "resurrect-outstanding", "resurrect-outstanding")
	}
	switch k := rapid.SampledFrom(kinds).Draw(t, "replKind"); k {
	case "resurrect-outstanding":
		// a later leader still has the suffix that was handed out for
		// persistence and then truncated here: it comes back unchanged
		prev = last
		o := h.queue[0]
		for i, e := range o.saveCopy {
			if e.Index <= m.committed || e.Index > last+1 {
				continue
			}
			if e.Index <= last && m.at(e.Index).Term == e.Term {
				continue
			}
			u, known := h.universe[[2]uint64{e.Index, e.Term}]
			if pt, ok := m.rawTerm(e.Index - 1); known && ok && pt == u.parentTerm && m.term(e.Index-1) == pt {
				prev = e.Index - 1
				preset = elCopyEntries(o.saveCopy[i:])
				h.label("resurrect-outstanding-suffix")
			}
			break
		}
	case "tail":
		prev = last
	case "any":
		prev = m.committed + uint64(rapid.IntRange(0, int(last-m.committed)).Draw(t, "prev"))
	case "below-saved":
		top := m.savedTo
		if top > last {
			top = last
		}
		prev = m.committed + uint64(rapid.IntRange(0, int(top-m.committed)-1).Draw(t, "prev"))
		steer, target = k, top
	case "below-outstanding":
		top := h.queue[0].stableIdx
		if top > last {
			top = last
		}
		if top <= m.committed {
			prev = last
		} else {
			prev = m.committed + uint64(rapid.IntRange(0, int(top-m.committed)-1).Draw(t, "prev"))
			steer, target = k, top
		}
	}
	prevTerm := m.term(prev)
	if prev > 0 && prevTerm == 0 {
		// prev below the available range can not be matched; real leaders then
		// fall back to a snapshot. Not a log operation.
		return
	}
	var ents []pb.Entry
	cur, curTerm := prev, prevTerm
	if preset != nil {
		ents = preset
		cur, curTerm = preset[len(preset)-1].Index, preset[len(preset)-1].Term
		steer = "preset"
		if preset[0].Index <= last {
			if preset[0].Term < m.at(preset[0].Index).Term {
				h.label("conflict-lower-term")
			} else {
				h.label("conflict-higher-term")
			}
			h.label("conflict-resurrects-old-fork")
		}
	}
	if steer == "none" {
		ov := rapid.IntRange(0, 3).Draw(t, "overlap")
		for i := 0; i < ov && cur < last; i++ {
			cur++
			ents = append(ents, elCopyEntry(m.at(cur)))
			curTerm = m.at(cur).Term
		}
	}
	n := rapid.IntRange(0, 4).Draw(t, "nNew")
	if steer == "preset" {
		n = 0
	} else if steer != "none" {
		need := int(target - cur)
		if rapid.IntRange(0, 3).Draw(t, "cover") > 0 && n < need {
			n = need
		}
		if n == 0 {
			n = 1
		}
	}
	conflict := false
	for k := 0; k < n; k++ {
		j := cur + 1
		var avoid, curAtJ uint64
		if j <= last && !conflict {
			curAtJ = m.at(j).Term
			if steer != "none" || rapid.IntRange(0, 3).Draw(t, "forceConflict") > 0 {
				avoid = curAtJ
			}
		}
		c, ok := h.chooseTerm(j, curTerm, avoid, curAtJ)
		if !ok {
			break
		}
		var e pb.Entry
		if c.known {
			e = elCopyEntry(h.universe[[2]uint64{j, c.term}].e)
		} else {
			e = h.newPayload()
			e.Index, e.Term = j, c.term
			h.reg(e, curTerm)
		}
		if j <= last && !conflict && e.Term != m.at(j).Term {
			conflict = true
			if e.Term < m.at(j).Term {
				h.label("conflict-lower-term")
			} else {
				h.label("conflict-higher-term")
			}
			if c.kind == "fork-known" || c.kind == "same-known" {
				h.label("conflict-resurrects-old-fork")
			}
		}
		ents = append(ents, e)
		cur, curTerm = j, e.Term
	}
	lastIdx := prev + uint64(len(ents))
	mCommit := uint64(rapid.IntRange(0, int(lastIdx)+2).Draw(t, "mCommit"))
	h.leader = false
	if len(ents) > 0 && ents[len(ents)-1].Term > h.maxTerm {
		h.maxTerm = ents[len(ents)-1].Term
	}
	h.el.SetTerm(h.maxTerm)

	h.logf("replicate prev=%d/t%d ents=%s commit=%d", prev, prevTerm, elBrief(ents), mCommit)
	// --- raft.handleReplicateMessage ---
	if prev < h.el.Committed() {
		h.fail("harness", "generator produced prev < committed")
	}
	var ok bool
	var err error
	h.guard("matchterm", func() { ok, err = h.el.MatchTerm(prev, prevTerm) })
	if err != nil || !ok {
		h.fail("matchterm-mismatch", "matchTerm(%d,%d)=%v,%s for the log's own pair", prev, prevTerm, ok, h.errName(err))
	}
	in := elCopyEntries(ents)
	var changed bool
	h.guard("tryappend", func() { changed, err = h.el.TryAppend(prev, in) })
	// model: first index whose term differs
	ci := uint64(0)
	for _, e := range ents {
		if m.term(e.Index) != e.Term {
			ci = e.Index
			break
		}
	}
	if err != nil || changed != (ci != 0) {
		h.fail("tryappend-mismatch", "tryAppend(%d,%s)=%v,%s, model conflict index %d",
			prev, elBrief(ents), changed, h.errName(err), ci)
	}
	if ci != 0 {
		if ci <= last {
			h.label("follower-conflict-truncate")
			h.hbMax = lastIdx
		} else {
			h.label("follower-extend")
		}
		h.appendToModel(ents[ci-prev-1:])
	} else if len(ents) > 0 {
		h.label("follower-duplicate")
	}
	if lastIdx > h.hbMax {
		h.hbMax = lastIdx
	}
	c := lastIdx
	if mCommit < c {
		c = mCommit
	}
	h.guard("committo", func() { h.el.CommitTo(c) })
	if c > m.committed {
		m.committed = c
		h.label("follower-commit")
	}
	for _, o := range h.queue {
		if o.truncBelow && m.last() >= o.stableIdx {
			h.label("outstanding-save-truncated-and-reappended")
		}
	}
}

// a Replicate whose (prev index, prev term) does not match: rejected, no change.
func (h *elH) opReplicateMismatch() {
	t, m := h.t, h.m
	prev := m.committed + uint64(rapid.IntRange(0, int(m.last()-m.committed)+2).Draw(t, "prev"))
	pt := m.term(prev) + uint64(rapid.IntRange(1, 2).Draw(t, "termOff"))
	var ok bool
	var err error
	h.guard("matchterm", func() { ok, err = h.el.MatchTerm(prev, pt) })
	h.logf("replicate-mismatch prev=%d/t%d", prev, pt)
	if err != nil || ok {
		h.fail("matchterm-mismatch", "matchTerm(%d,%d)=%v,%s, model term %d", prev, pt, ok, h.errName(err), m.term(prev))
	}
	h.label("replicate-rejected")
}

// raft.handleHeartbeatMessage: commitTo(min(match, leader commit))
func (h *elH) opHeartbeat() {
	t, m := h.t, h.m
	if h.leader || h.hbMax == 0 {
		return
	}
	top := h.hbMax
	if top > m.last() {
		top = m.last()
	}
	c := uint64(rapid.IntRange(0, int(top)).Draw(t, "hbCommit"))
	h.logf("heartbeat commit=%d", c)
	h.guard("committo", func() { h.el.CommitTo(c) })
	if c > m.committed {
		m.committed = c
		h.label("heartbeat-commit")
	}
}

// raft.handleInstallSnapshotMessage -> raft.restore
func (h *elH) opRestore() {
	t, m := h.t, h.m
	last := m.last()
	s := m.committed + 1 + uint64(rapid.IntRange(0, int(last-m.committed)+2).Draw(t, "ssIndex"))
	var st uint64
	match := false
	if s <= last && rapid.IntRange(0, 2).Draw(t, "ssMatch") == 0 {
		st = m.at(s).Term
		match = true
	} else {
		var cands []uint64
		cands = append(cands, h.maxTerm+1)
		if s <= last {
			for _, tt := range h.idxTerms[s] {
				if tt != m.at(s).Term {
					cands = append(cands, tt)
				}
			}
		} else {
			lt, _ := m.rawTerm(last)
			if b, ok := h.blocks[lt]; ok && !b.own && lt > 0 {
				if _, known := h.universe[[2]uint64{s, lt}]; !known && b.end <= last {
					cands = append(cands, lt)
				}
			}
		}
		st = rapid.SampledFrom(cands).Draw(t, "ssTerm")
	}
	ss := pb.Snapshot{Index: s, Term: st, ShardID: h.shardID,
		Membership: pb.Membership{Addresses: map[uint64]string{1: "a1", 2: "a2"}}}
	h.leader = false
	if st > h.maxTerm {
		h.maxTerm = st
	}
	h.el.SetTerm(h.maxTerm)
	h.logf("install-snapshot index=%d term=%d (match=%v)", s, st, match)
	// --- raft.restore ---
	if s <= h.el.Committed() {
		h.fail("harness", "generator produced snapshot index <= committed")
	}
	var ok bool
	var err error
	h.guard("matchterm", func() { ok, err = h.el.MatchTerm(s, st) })
	if err != nil || ok != (m.term(s) == st) {
		h.fail("matchterm-mismatch", "matchTerm(%d,%d)=%v,%s, model term %d", s, st, ok, h.errName(err), m.term(s))
	}
	if ok {
		h.guard("committo", func() { h.el.CommitTo(s) })
		m.committed = s
		h.label("snapshot-matches-commit-only")
		if s > h.hbMax {
			h.hbMax = s
		}
		return
	}
	h.guard("restore", func() { h.el.Restore(ss) })
	if s <= m.savedTo {
		h.label("restore-below-saved")
	}
	if m.pendSnap != nil {
		h.label("restore-over-pending-restore")
	}
	m.floor, m.floorTerm = s, st
	m.ents = nil
	m.committed, m.processed, m.savedTo = s, s, s
	cp := ss
	m.pendSnap = &cp
	h.hbMax = s
	k := [2]uint64{s, st}
	if _, known := h.universe[k]; !known {
		h.universe[k] = elUEntry{e: pb.Entry{Index: s, Term: st}}
		h.idxTerms[s] = append(h.idxTerms[s], st)
	}
	if b, okb := h.blocks[st]; !okb {
		h.blocks[st] = &elBlock{start: s, end: s}
	} else if s > b.end {
		b.end = s
	}
	for _, o := range h.queue {
		o.restored = true
		h.label("restore-between-save-and-ack")
	}
	h.label("restore")
}

func (h *elH) opResize() {
	t := h.t
	shrunk := h.el.InMemShrunk()
	if rapid.IntRange(0, 3).Draw(t, "quiesce") == 0 {
		h.logf("quiescedTick: inmem.resize (shrunk=%v len=%d cap=%d)", shrunk, h.el.InMemLen(), h.el.InMemCap())
		h.guard("resize", func() { h.el.Resize() })
		h.label("resize-quiesce")
	} else {
		h.logf("tick: inmem.tryResize (shrunk=%v len=%d cap=%d)", shrunk, h.el.InMemLen(), h.el.InMemCap())
		h.guard("tryresize", func() { h.el.TryResize() })
		if shrunk {
			h.label("resize-hit")
		}
	}
}

// ---------------------------------------------------------------------------
// RSM / snapshot worker side
// ---------------------------------------------------------------------------

func (h *elH) opRsmApply(where string) {
	t := h.t
	if h.pushed <= h.rsmApplied {
		return
	}
	x := h.pushed
	if !h.forceApplyAll {
		x = h.rsmApplied + uint64(rapid.IntRange(1, int(h.pushed-h.rsmApplied)).Draw(t, "applyTo"))
	}
	for _, g := range h.gaps {
		if x > g.lo && x < g.hi {
			x = g.hi
		}
	}
	h.rsmApplied = x
	h.logf("%srsm applied -> %d", where, x)
	// the apply worker has consumed the entries handed out up to x
	keep := h.handed[:0]
	for _, hd := range h.handed {
		if !elSameEntries(hd.alias, hd.copy) {
			h.fail("handed-out-slice-mutated", "CommittedEntries changed before the RSM applied them: %s, was %s",
				elBrief(hd.alias), elBrief(hd.copy))
		}
		if len(hd.copy) > 0 && hd.copy[len(hd.copy)-1].Index > x {
			keep = append(keep, hd)
		}
	}
	h.handed = keep
}

// node.doSave: LogReader.CreateSnapshot + compactLog
func (h *elH) opLocalSnapshot(where string) {
	t, m := h.t, h.m
	if h.rsmApplied <= m.rdSnap || h.rsmApplied <= m.floor {
		return
	}
	lo := m.rdSnap
	if m.floor > lo {
		lo = m.floor
	}
	idx := lo + uint64(rapid.IntRange(1, int(h.rsmApplied-lo)).Draw(t, "lsIndex"))
	for _, g := range h.gaps {
		if idx > g.lo && idx < g.hi {
			return
		}
	}
	if idx > m.last() {
		return
	}
	term := m.at(idx).Term
	ss := pb.Snapshot{Index: idx, Term: term, ShardID: h.shardID,
		Membership: pb.Membership{Addresses: map[uint64]string{1: "a1"}}}
	var err error
	h.guard("createsnapshot", func() { err = h.rd.CreateSnapshot(ss) })
	if err != nil {
		h.fail("createsnapshot-error", "LogReader.CreateSnapshot(%d) = %v, reader snapshot %d", idx, err, m.rdSnap)
	}
	m.rdSnap = idx
	overhead := uint64(rapid.SampledFrom([]int{0, 0, 1, 2, 5}).Draw(t, "overhead"))
	if idx > overhead {
		h.compactTo = idx - overhead
	}
	h.logf("%slocal snapshot at %d/t%d, compactLogTo=%d", where, idx, term, h.compactTo)
	h.label("local-snapshot")
}

// node.removeLog
func (h *elH) removeLog() {
	m := h.m
	if h.compactTo == 0 {
		return
	}
	c := h.compactTo
	h.compactTo = 0
	var err error
	h.guard("compact", func() { err = h.rd.Compact(c) })
	h.logf("  removeLog: Compact(%d) -> %s (inmem marker %d)", c, h.errName(err), h.el.InMemMarker())
	switch {
	case c < m.rdMarker:
		if !errors.Is(err, raft.ErrCompacted) {
			h.fail("compact-result", "LogReader.Compact(%d) below marker %d returned %s", c, m.rdMarker, h.errName(err))
		}
		h.label("compact-already-compacted")
	case c > m.rdLast:
		h.fail("harness", "generator produced a compaction index %d beyond the reader's last index %d", c, m.rdLast)
	default:
		if err != nil {
			h.fail("compact-result", "LogReader.Compact(%d) in range (%d,%d] returned %s", c, m.rdMarker, m.rdLast, h.errName(err))
		}
		if c > m.rdMarker {
			d, ok := m.durable[c]
			if !ok {
				h.fail("harness", "compaction index %d is not durable", c)
			}
			m.rdMarker, m.rdMarkerTerm = c, d.Term
			if c >= h.el.InMemMarker() {
				h.label("compact-ahead-of-inmem-window")
			} else {
				h.label("compact-entries-only-in-reader")
			}
			if c > m.processed {
				h.label("compact-beyond-processed")
			}
		}
	}
	if err := h.db.RemoveEntriesTo(h.shardID, elReplicaID, c); err != nil {
		h.t.Fatalf("VFINCONCLUSIVE RemoveEntriesTo: %v", err)
	}
	for i := range m.durable {
		if i <= c {
			delete(m.durable, i)
		}
	}
}

// ops of other threads that may run while the step worker is inside a cycle
func (h *elH) concurrent() {
	t := h.t
	n := rapid.IntRange(0, 6).Draw(t, "concurrentOps")
	if n > 2 {
		return
	}
	for i := 0; i < n; i++ {
		switch rapid.IntRange(0, 3).Draw(t, "concurrentKind") {
		case 0, 1:
			h.opRsmApply("  (concurrent) ")
		case 2:
			h.opLocalSnapshot("  (concurrent) ")
		case 3:
			// node.ApplyConfigChange -> removeNode -> tryCommit on the apply worker
			h.opLeaderTryCommit("  (concurrent) ")
		}
		h.checkAll("concurrent-op")
	}
}

// ---------------------------------------------------------------------------
// the Update cycle (engine.processSteps for one node)
// ---------------------------------------------------------------------------

func (h *elH) checkUpdate(ud pb.Update, more bool, lastApplied uint64) {
	m := h.m
	wantSave := m.toSave()
	if !elSameEntries(ud.EntriesToSave, wantSave) {
		h.fail("entries-to-save-mismatch", "Update.EntriesToSave=%s, model %s", elBrief(ud.EntriesToSave), elBrief(wantSave))
	}
	var wantApply []pb.Entry
	if more {
		wantApply = m.toApply(h.tun.MaxEntriesToApplySize)
	}
	if !elSameEntries(ud.CommittedEntries, wantApply) {
		h.fail("entries-to-apply-mismatch", "Update.CommittedEntries=%s, model %s (moreToApply=%v)",
			elBrief(ud.CommittedEntries), elBrief(wantApply), more)
	}
	var wantSnap uint64
	if m.pendSnap != nil {
		wantSnap = m.pendSnap.Index
	}
	if ud.Snapshot.Index != wantSnap {
		h.fail("update-snapshot-mismatch", "Update.Snapshot.Index=%d, model %d", ud.Snapshot.Index, wantSnap)
	}
	// the acknowledgement that will be given back
	want := pb.UpdateCommit{LastApplied: lastApplied}
	if n := len(wantApply); n > 0 {
		want.Processed = wantApply[n-1].Index
		if ud.MoreCommittedEntries != (wantApply[n-1].Index < m.committed) {
			h.fail("more-committed-entries-mismatch", "MoreCommittedEntries=%v, handed out to %d, committed %d",
				ud.MoreCommittedEntries, wantApply[n-1].Index, m.committed)
		}
	}
	if n := len(wantSave); n > 0 {
		want.StableLogTo, want.StableLogTerm = wantSave[n-1].Index, wantSave[n-1].Term
	}
	if wantSnap > 0 {
		want.StableSnapshotTo = wantSnap
		if wantSnap > want.Processed {
			want.Processed = wantSnap
		}
	}
	if ud.UpdateCommit != want {
		h.fail("update-commit-mismatch", "Update.UpdateCommit=%+v, model %+v", ud.UpdateCommit, want)
	}
	// invariant B: never handed out for apply before committed and handed out
	// for persistence (and durable already when applied ahead of the save)
	inSave := make(map[[2]uint64]bool)
	for _, e := range ud.EntriesToSave {
		inSave[[2]uint64{e.Index, e.Term}] = true
	}
	for _, e := range ud.CommittedEntries {
		k := [2]uint64{e.Index, e.Term}
		if e.Index > m.committed {
			h.fail("apply-beyond-commit", "entry %d handed out for apply, committed %d", e.Index, m.committed)
		}
		if !inSave[k] && !m.handedForSave[k] {
			h.fail("apply-before-persist", "entry %d/t%d handed out for apply but never handed out for persistence", e.Index, e.Term)
		}
		if !inSave[k] && !m.durableSame(e) {
			h.fail("apply-before-persist", "entry %d/t%d handed out for apply, not in this Update's EntriesToSave and not durable", e.Index, e.Term)
		}
		if ud.FastApply && !m.durableSame(e) {
			h.fail("fast-apply-not-durable", "FastApply Update hands out entry %d/t%d which is not durable yet", e.Index, e.Term)
		}
	}
	for _, e := range ud.EntriesToSave {
		m.handedForSave[[2]uint64{e.Index, e.Term}] = true
	}
}

// push mirrors node.applyRaftUpdates (pb.EntriesToApply is the node's own
// strict check for holes / stale hand-outs).
func (h *elH) push(ud pb.Update) {
	if len(ud.CommittedEntries) == 0 {
		return
	}
	var out []pb.Entry
	h.guard("entries-to-apply-node-check", func() {
		out = pb.EntriesToApply(ud.CommittedEntries, h.pushed, true)
	})
	if len(out) > 0 {
		h.pushed = out[len(out)-1].Index
	}
	h.handed = append(h.handed, &elHanded{alias: ud.CommittedEntries, copy: elCopyEntries(ud.CommittedEntries)})
}

func (h *elH) applyCommit(o *elOutstanding, stale bool) {
	m := h.m
	cu := o.ud.UpdateCommit
	// preconditions of entryLog.commitUpdate that real callers respect
	if cu.Processed > 0 && (cu.Processed < m.processed || cu.Processed > m.committed) {
		h.fail("harness", "generator produced Processed %d outside [%d,%d]", cu.Processed, m.processed, m.committed)
	}
	if !elSameEntries(o.ud.EntriesToSave, o.saveCopy) {
		h.fail("handed-out-slice-mutated", "EntriesToSave changed between GetUpdate and Commit: %s, was %s",
			elBrief(o.ud.EntriesToSave), elBrief(o.saveCopy))
	}
	markerBefore := h.el.InMemMarker()
	lenBefore, shrunkBefore := h.el.InMemLen(), h.el.InMemShrunk()
	h.guard("commit", func() { h.el.Commit(o.ud) })
	if lenBefore > 0 && h.el.InMemLen() == 0 && h.el.InMemMarker() != markerBefore {
		h.label("full-trim-by-one-apply-ack")
		if !shrunkBefore {
			h.label("full-trim-of-unshrunk-window")
			h.fullTrimFresh = true
		}
	}
	if cu.StableLogTo > 0 {
		if cu.StableLogTo <= m.last() && cu.StableLogTo > m.floor && m.at(cu.StableLogTo).Term == cu.StableLogTerm {
			if cu.StableLogTo > m.savedTo {
				m.savedTo = cu.StableLogTo
			}
			if stale {
				h.label("stale-ack-accepted")
			}
		} else if stale {
			h.label("stale-ack-ignored")
		}
	}
	if cu.StableSnapshotTo > 0 && m.pendSnap != nil && m.pendSnap.Index == cu.StableSnapshotTo {
		m.pendSnap = nil
	}
	if cu.Processed > 0 {
		m.processed = cu.Processed
	}
	if cu.LastApplied > 0 {
		if cu.LastApplied > m.processed {
			h.fail("harness", "generator produced LastApplied %d > processed %d", cu.LastApplied, m.processed)
		}
		if h.el.InMemMarker() != markerBefore {
			h.label("inmem-trimmed-by-apply-ack")
			if !h.el.InMemShrunk() {
				h.label("resize-auto-after-trim")
			}
		}
	}
}

func (h *elH) opCycle(pipelined bool) {
	t, m := h.t, h.m
	if pipelined && m.pendSnap != nil {
		pipelined = false
	}
	if !pipelined && len(h.queue) > 0 {
		// a synchronous cycle can only follow once everything outstanding has
		// been acknowledged (acknowledgements are FIFO)
		for len(h.queue) > 0 {
			h.opAck(false)
			h.checkAll("ack")
		}
	}
	more := false
	if !pipelined {
		more = h.forceMore || rapid.IntRange(0, 4).Draw(t, "moreToApply") > 0
	}
	lastApplied := h.rsmApplied
	if lastApplied > m.processed {
		h.fail("harness", "lastApplied %d > processed %d", lastApplied, m.processed)
	}
	// --- node.stepNode: getUpdate ---
	h.guard("notify", func() { h.el.NotifyRaftLastApplied(lastApplied) })
	var ud pb.Update
	var err error
	h.guard("getupdate", func() { ud, err = h.el.GetUpdate(more, lastApplied) })
	if err != nil {
		h.fail("getupdate-error", "GetUpdate(%v,%d) returned %v", more, lastApplied, err)
	}
	h.logf("cycle(%s) GetUpdate(more=%v,lastApplied=%d): save=%s apply=%s snapshot=%d fast=%v uc=%+v",
		map[bool]string{true: "pipelined", false: "sync"}[pipelined], more, lastApplied,
		elBrief(ud.EntriesToSave), elBrief(ud.CommittedEntries), ud.Snapshot.Index, ud.FastApply, ud.UpdateCommit)
	h.checkUpdate(ud, more, lastApplied)
	o := &elOutstanding{ud: ud, saveCopy: elCopyEntries(ud.EntriesToSave),
		stableIdx: ud.UpdateCommit.StableLogTo, stableTerm: ud.UpdateCommit.StableLogTerm}
	h.queue = append(h.queue, o)
	if len(ud.CommittedEntries) > 0 {
		if ud.FastApply {
			h.label("update-fast-apply")
		} else {
			h.label("update-apply-after-save")
		}
		if ud.MoreCommittedEntries {
			h.label("apply-paginated")
		}
	}
	if ud.Snapshot.Index > 0 && len(ud.EntriesToSave) > 0 {
		h.label("update-snapshot-plus-entries")
	}
	// --- engine.processSteps: applySnapshotAndUpdate(fast) ---
	if ud.FastApply {
		h.push(ud)
	}
	if !pipelined {
		h.concurrent()
	}
	// --- SaveRaftState ---
	if err := h.db.SaveRaftState([]pb.Update{ud}, 1); err != nil {
		t.Fatalf("VFINCONCLUSIVE SaveRaftState: %v", err)
	}
	m.save(ud)
	h.readerStale = true
	h.checkAll("save")
	if !pipelined {
		h.concurrent()
	}
	// --- applySnapshotAndUpdate(not fast): node.processSnapshot + push ---
	if !ud.FastApply {
		if ud.Snapshot.Index > 0 {
			var err error
			h.guard("applysnapshot", func() { err = h.rd.ApplySnapshot(ud.Snapshot) })
			if err != nil {
				h.fail("applysnapshot-error", "LogReader.ApplySnapshot(%d) = %v, reader snapshot %d", ud.Snapshot.Index, err, m.rdSnap)
			}
			m.rdMarker, m.rdMarkerTerm, m.rdLast, m.rdSnap = ud.Snapshot.Index, ud.Snapshot.Term, ud.Snapshot.Index, ud.Snapshot.Index
			// node.pushSnapshot
			if ud.Snapshot.Index < h.pushed {
				h.fail("harness", "snapshot %d older than pushed %d", ud.Snapshot.Index, h.pushed)
			}
			if ud.Snapshot.Index > h.pushed+1 {
				h.gaps = append(h.gaps, elGap{lo: h.pushed, hi: ud.Snapshot.Index})
			}
			h.pushed = ud.Snapshot.Index
			h.checkAll("apply-snapshot")
		}
		h.push(ud)
	}
	// --- node.processRaftUpdate: LogReader.Append, removeLog ---
	var aerr error
	h.guard("reader-append", func() { aerr = h.rd.Append(ud.EntriesToSave) })
	if aerr != nil {
		h.fail("reader-append-error", "LogReader.Append(%s) = %v", elBrief(ud.EntriesToSave), aerr)
	}
	if n := len(ud.EntriesToSave); n > 0 {
		if l := ud.EntriesToSave[n-1].Index; l > m.rdMarker {
			if l < m.rdLast {
				h.label("reader-append-shrinks-range")
			} else if ud.EntriesToSave[0].Index <= m.rdLast {
				h.label("reader-append-overlaps")
			}
			m.rdLast = l
		}
	}
	h.readerStale = false
	h.checkAll("reader-append")
	if h.compactTo > 0 {
		h.removeLog()
		h.checkAll("remove-log")
	}
	if !pipelined {
		h.concurrent()
	}
	if pipelined {
		h.savedLoose = true
		h.label("pipelined-update")
		if len(h.queue) > 1 {
			h.label("several-updates-outstanding")
		}
		return
	}
	// --- node.commitRaftUpdate ---
	h.opAck(false)
	if h.savedLoose && ud.UpdateCommit.StableLogTo > 0 && len(h.queue) == 0 {
		// a fresh acknowledgement of a write that was just made: from here on
		// the cursor is determined again
		h.checkAll("commit")
		if m.savedTo != ud.UpdateCommit.StableLogTo {
			h.fail("fresh-ack-not-honoured", "Commit right after SaveRaftState of %s left entriesToSave() starting at %d",
				elBrief(ud.EntriesToSave), m.savedTo+1)
		}
		h.savedLoose = false
	}
}

// opAck delivers the acknowledgement (Peer.Commit) of the oldest outstanding Update.
func (h *elH) opAck(drop bool) {
	m := h.m
	if len(h.queue) == 0 {
		return
	}
	o := h.queue[0]
	stale := o.truncBelow || o.restored
	// count the shape the property text singles out
	reoccupied := o.stableIdx > 0 && o.truncBelow && m.last() >= o.stableIdx
	if !drop && o.stableIdx > 0 && o.stableIdx <= m.last() && o.stableIdx > m.floor &&
		m.at(o.stableIdx).Term == o.stableTerm {
		// the acknowledgement will be accepted: is everything up to it really
		// what the store holds?
		aba := false
		for i := m.savedTo + 1; i <= o.stableIdx; i++ {
			if i > m.rdMarker && !m.durableSame(m.at(i)) {
				aba = true
			}
		}
		if (aba || o.restored || o.truncBelow) && os.Getenv("VF_EL_DELIVER_ABA") != "" {
			// demonstration switch (findings/E8.md): deliver it anyway
			h.label("aba-delayed-ack-delivered")
			aba = false
		} else if aba {
			// A delayed acknowledgement whose (index,term) pair is back in the
			// log although a different entry was written in between (A-B-A).
			// The engine acknowledges every Update before the next step, so no
			// replica can produce this; steer around it and count.
			h.st.Count("excluded-aba-delayed-ack", 1)
			h.logf("ack of Update stable=%d/t%d withheld (A-B-A, excluded)", o.stableIdx, o.stableTerm)
			drop = true
		} else if o.restored {
			// same shape with a snapshot restore as the "B": the Update predates
			// a restore and its last pair re-entered the log afterwards.
			h.st.Count("excluded-delayed-ack-across-restore", 1)
			h.logf("ack of Update stable=%d/t%d withheld (matches again after a restore, excluded)", o.stableIdx, o.stableTerm)
			drop = true
		} else if o.truncBelow {
			// the pair is back and the store content is still identical, but
			// honouring the acknowledgement skips the re-save that would have
			// told the LogReader about the truncation: the reader (and the
			// store) keep the stale suffix above it, which becomes the log's
			// answer once the in-memory window is empty. Same unreachable shape.
			h.st.Count("excluded-delayed-ack-rematch-after-truncation", 1)
			h.logf("ack of Update stable=%d/t%d withheld (matches again after a truncation, excluded)", o.stableIdx, o.stableTerm)
			drop = true
		}
	}
	h.queue = h.queue[1:]
	if drop {
		h.label("ack-dropped")
		h.logf("ack of Update stable=%d/t%d dropped", o.stableIdx, o.stableTerm)
		return
	}
	h.logf("  Commit(uc=%+v)%s", o.ud.UpdateCommit, map[bool]string{true: " [stale]", false: ""}[stale])
	h.applyCommit(o, stale)
	if reoccupied {
		h.nt = true
		h.label("ack-of-old-save-after-truncate-and-reappend")
	}
	if o.restored {
		h.label("ack-after-restore")
	}
}

// opDrain lets the replica catch up completely, with nothing but ordinary steps:
// the commit index reaches the last index (leader: quorum acknowledged it;
// follower: an empty Replicate / heartbeat of a leader whose log ends like
// ours), synchronous cycles hand everything out, the RSM applies all of it, and
// the next cycle reports LastApplied == last index, which empties the in-memory
// window with ONE apply acknowledgement.
func (h *elH) opDrain() {
	m := h.m
	last := m.last()
	if last > m.committed {
		if h.leader {
			var ok bool
			var err error
			h.guard("trycommit", func() { ok, err = h.el.TryCommit(last, h.leaderTerm) })
			want := m.term(last) == h.leaderTerm
			h.logf("drain: leader tryCommit(%d,t%d) -> %v", last, h.leaderTerm, ok)
			if err != nil || ok != want {
				h.fail("trycommit-mismatch", "tryCommit(%d,%d)=%v,%s, model %v", last, h.leaderTerm, ok, h.errName(err), want)
			}
			if want {
				m.committed = last
			}
		} else {
			lt := m.term(last)
			var ok bool
			var err error
			h.guard("matchterm", func() { ok, err = h.el.MatchTerm(last, lt) })
			if err != nil || !ok {
				h.fail("matchterm-mismatch", "matchTerm(%d,%d)=%v,%s for the log's own pair", last, lt, ok, h.errName(err))
			}
			h.guard("tryappend", func() { _, err = h.el.TryAppend(last, nil) })
			h.guard("committo", func() { h.el.CommitTo(last) })
			h.logf("drain: replicate prev=%d/t%d ents=[] commit=%d", last, lt, last)
			m.committed = last
			if last > h.hbMax {
				h.hbMax = last
			}
		}
		h.checkAll("drain-commit")
	}
	h.forceMore, h.forceApplyAll = true, true
	defer func() { h.forceMore, h.forceApplyAll = false, false }()
	for i := 0; i < 6 && (m.processed < m.committed || h.pushed > h.rsmApplied); i++ {
		h.opCycle(false)
		h.checkAll("drain-cycle")
		if h.pushed > h.rsmApplied {
			h.opRsmApply("drain: ")
			h.checkAll("drain-apply")
		}
	}
	h.opCycle(false)
	h.label("drain")
}

// ---------------------------------------------------------------------------
// the property
// ---------------------------------------------------------------------------

type elOp struct {
	name   string
	weight func(h *elH) int // 0 = not applicable in the current state
	run    func(h *elH)
}

// headState: 0 no outstanding Update, 1 outstanding and untouched, 2 truncated
// at or below its last index, 3 truncated and the index is occupied again.
func (h *elH) headState() int {
	if len(h.queue) == 0 {
		return 0
	}
	o := h.queue[0]
	if o.stableIdx == 0 || !o.truncBelow {
		if o.stableIdx > h.m.committed {
			return 1
		}
		return 4
	}
	if h.m.last() >= o.stableIdx {
		return 3
	}
	return 2
}

var elOps = []elOp{
	{"leader-append", func(h *elH) int {
		if h.leader {
			return 12
		}
		return 4
	}, func(h *elH) { h.opLeaderAppend() }},
	{"leader-trycommit", func(h *elH) int {
		if h.leader {
			return 8
		}
		return 0
	}, func(h *elH) { h.opLeaderTryCommit("") }},
	{"replicate", func(h *elH) int {
		switch h.headState() {
		case 1:
			return 60
		case 2:
			return 40
		}
		if h.leader {
			return 10
		}
		return 26
	}, func(h *elH) { h.opReplicate() }},
	{"replicate-mismatch", func(h *elH) int { return 2 }, func(h *elH) { h.opReplicateMismatch() }},
	{"heartbeat", func(h *elH) int {
		if !h.leader && h.hbMax > 0 {
			return 6
		}
		return 0
	}, func(h *elH) { h.opHeartbeat() }},
	{"restore", func(h *elH) int { return 4 }, func(h *elH) { h.opRestore() }},
	{"cycle", func(h *elH) int { return 22 }, func(h *elH) { h.opCycle(false) }},
	{"cycle-pipelined", func(h *elH) int {
		if h.m.pendSnap != nil {
			return 0
		}
		if len(h.queue) == 0 && h.m.last() > h.m.savedTo && h.m.last() > h.m.committed {
			return 22
		}
		return 6
	}, func(h *elH) { h.opCycle(true) }},
	{"ack", func(h *elH) int {
		switch h.headState() {
		case 0:
			return 0
		case 3:
			return 60
		}
		return 8
	}, func(h *elH) { h.opAck(false) }},
	{"ack-drop", func(h *elH) int {
		if len(h.queue) > 0 {
			return 1
		}
		return 0
	}, func(h *elH) { h.opAck(true) }},
	{"rsm-apply", func(h *elH) int {
		if h.pushed > h.rsmApplied {
			return 8
		}
		return 0
	}, func(h *elH) { h.opRsmApply("") }},
	{"local-snapshot", func(h *elH) int {
		if h.rsmApplied > h.m.rdSnap && h.rsmApplied > h.m.floor {
			return 6
		}
		return 0
	}, func(h *elH) { h.opLocalSnapshot("") }},
	{"resize", func(h *elH) int { return 4 }, func(h *elH) { h.opResize() }},
	{"drain", func(h *elH) int {
		if h.m.last() == h.m.floor || h.el.InMemLen() == 0 {
			return 0
		}
		if h.m.last()-h.m.processed <= 6 {
			return 8
		}
		return 3
	}, func(h *elH) { h.opDrain() }},
}

func elRunCase(t *rapid.T, st *vfhelp.Stats) {
	h := elNewHarness(t, st)
	h.checkAll("init")
	nOps := rapid.IntRange(1, 48).Draw(t, "nOps")
	var canon bytes.Buffer
	for i := 0; i < nOps; i++ {
		total := 0
		var usable []elOp
		var weights []int
		for _, op := range elOps {
			if w := op.weight(h); w > 0 {
				usable = append(usable, op)
				weights = append(weights, w)
				total += w
			}
		}
		x := rapid.IntRange(0, total-1).Draw(t, "op")
		var op elOp
		for k, c := range usable {
			if x < weights[k] {
				op = c
				break
			}
			x -= weights[k]
		}
		before := len(h.trace)
		op.run(h)
		h.checkAll(op.name)
		for _, l := range h.trace[before:] {
			canon.WriteString(l)
			canon.WriteByte('\n')
		}
	}
	// classification
	labels := make([]string, 0, len(h.labels))
	for l := range h.labels {
		labels = append(labels, l)
	}
	sort.Strings(labels)
	st.Case(canon.Bytes(), h.nt, labels...)
	if h.nt && st.WantSample() {
		st.Sample(map[string]interface{}{"trace": h.trace, "final": h.describe()})
	}
}

func elQuietLogs() {
	for _, n := range []string{"raft", "logdb", "rsm", "raftpb", "pebblekv", "dragonboat", "config", "server", "settings", "utils"} {
		logger.GetLogger(n).SetLevel(logger.CRITICAL)
	}
}

func TestVF_C19_EntryLog(t *testing.T) {
	elQuietLogs()
	// the in-memory file system of the store lives on the Go heap: collect less often
	defer debug.SetGCPercent(debug.SetGCPercent(400))
	st := vfhelp.NewStats("TestVF_C19_EntryLog",
		"generated call sequences (leader append/tryCommit, follower Replicate with conflicts at any uncommitted position incl. lower-term and re-surfacing forks, heartbeat commit, InstallSnapshot restore, engine Update cycles GetUpdate->SaveRaftState->ApplySnapshot->LogReader.Append->Compact+RemoveEntriesTo->Commit, delayed/dropped FIFO acknowledgements, RSM apply lag, local snapshots, tick/quiesce resize) on the real entryLog over the real LogReader over sharded Pebble on MemFS, every answer compared with a slice model after every step; non-trivial = an Update was persisted, a conflicting append truncated the log at or below its last index, the index was occupied again, and then the OLD Update was acknowledged")
	defer st.Flush()
	old := raft.ElSetTunables(raft.ElTunables{EntrySliceSize: 4, MinEntrySliceSize: 1, MaxEntriesToApplySize: 1 << 20})
	defer raft.ElSetTunables(old)
	rapid.Check(t, func(t *rapid.T) { elRunCase(t, st) })
}
