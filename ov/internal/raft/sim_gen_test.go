// E1 raftsim: generators, schedules, per-property test functions.
package raft

import (
	"encoding/json"
	"fmt"
	"os"
	"sort"
	"strings"
	"testing"
	"time"

	"github.com/anishathalye/porcupine"
	"github.com/lni/dragonboat/v4/internal/vfhelp"
	pb "github.com/lni/dragonboat/v4/raftpb"
	"pgregory.net/rapid"
)

// action kinds
const (
	aTick = iota
	aTickAll
	aStep
	aDeliver
	aDeliverTo
	aDrop
	aDup
	aPropose
	aRead
	aConfChange
	aApply
	aSnapshot
	aCrash
	aRestart
	aStepCrash
	aPartition
	aHeal
	aTransfer
	aStatus
	aRounds
	aStartJoin
	aTimeoutOff
	aIsolate
	aSplitLeader
	aHealOne
	aElect
	aLagSnapshot
	aJoinFlow
	aStaleLeaderDance
	aTransferLagging
	aDoubleVoteDance
	aTransferToRemoved
	aWitnessStaleMatch
	numActionKinds
)

var actionNames = [...]string{"tick", "tickAll", "step", "deliver", "deliverTo", "drop", "dup", "propose", "read",
	"confChange", "apply", "snapshot", "crash", "restart", "stepCrash", "partition", "heal", "transfer", "status",
	"rounds", "startJoin", "timeoutOff", "isolate",
	"splitLeader", "healOne", "elect", "lagSnapshot", "joinFlow", "staleLeaderDance", "transferLagging", "doubleVoteDance", "transferToRemoved", "witnessStaleMatch"}

type simAction struct {
	Kind int
	A    int
	B    int
	C    int
}

func (a simAction) String() string {
	return fmt.Sprintf("%s(%d,%d,%d)", actionNames[a.Kind], a.A, a.B, a.C)
}

type simShape struct {
	Voters      int
	Spares      []int // kinds of the spare replica ids (joined later through config changes)
	PreVote     bool
	CheckQuorum bool
	Ordered     bool
	ElectionRTT int
	Warm        bool
	TimeoutOffs []int
	TinyMsg     bool // one entry per Replicate message / apply batch (maxEntrySize, maxEntriesToApplySize)
	TinyInMem   bool // tiny in-memory entry slices and frequent in-mem GC
	// a replica that applies its own removal runs one more step (the step worker had
	// already passed the stopped test) instead of vanishing at once
	LingerRemoved bool
	// EarlyJoin spares join (config change through the leader, start, catch up) right
	// after the warm-up, so that the action list runs on a mixed-role shard (full
	// members + non-voting members / a witness) from its first action on
	EarlyJoin int
	// Unreach: the transport reports the target of every lost Replicate / Heartbeat /
	// InstallSnapshot message as unreachable to the sender
	Unreach bool
}

type simCase struct {
	Shape   simShape
	Actions []simAction
}

// weights per property profile
type profile struct {
	name     string
	weights  map[int]int
	allowDup bool
	minSpare int
	maxAct   int
	family   map[string]bool
	prefixes []string
	fair     bool // append the fair phase and require progress
	lin      bool // check linearizability of the client history
	spareBias []int
	voterBias []int
}

func baseWeights() map[int]int {
	return map[int]int{
		aTick: 6, aTickAll: 6, aStep: 10, aDeliver: 14, aDeliverTo: 6, aDrop: 3, aDup: 2, aPropose: 6, aRead: 3,
		aConfChange: 2, aApply: 6, aSnapshot: 2, aCrash: 2, aRestart: 3, aStepCrash: 2, aPartition: 1, aHeal: 1,
		aTransfer: 1, aStatus: 2, aRounds: 8, aStartJoin: 2, aTimeoutOff: 1, aIsolate: 1,
		aSplitLeader: 3, aHealOne: 2, aElect: 2, aLagSnapshot: 1, aJoinFlow: 1, aStaleLeaderDance: 1, aTransferLagging: 1, aDoubleVoteDance: 1, aTransferToRemoved: 1, aWitnessStaleMatch: 1,
	}
}

func fam(names ...string) map[string]bool {
	m := map[string]bool{}
	for _, n := range names {
		m[n] = true
	}
	return m
}

var famC02 = []string{"committed-entry-differs", "applied-state-differs", "applied-membership-differs", "apply-gap",
	"apply-term-regression", "apply-uncommitted", "apply-before-persist", "fast-apply-of-unsaved",
	"committed-entry-overwritten", "committed-entry-replaced", "log-matching-violated", "commit-regressed",
	"persist-gap", "final-divergence", "out-of-date-snapshot-pushed", "recover-older-snapshot", "compact-failed",
	"snapshot-content-missing", "sent-message-mutated"}
var famC03 = []string{"campaign-with-unapplied-config-change", "two-leaders-one-term", "two-votes-one-term", "leader-misses-committed-entry", "vote-not-durable", "term-regressed"}
var famC04 = []string{"vote-not-durable", "ack-not-durable", "term-not-durable", "recovered-term-lower", "recovered-vote-differs",
	"acked-entry-lost", "persist-gap", "apply-before-persist", "fast-apply-of-unsaved"}
var famC06 = []string{"stale-read-index", "read-confirmed-without-voting-quorum"}
var famC07 = []string{"cc-outcome-differs", "two-pending-config-changes", "removed-id-readmitted", "voters-empty",
	"campaign-with-unapplied-config-change", "raft-membership-differs-from-applied"}
var famC18 = []string{"read-confirmed-without-voting-quorum", "raft-membership-differs-from-applied", "non-voter-campaigns", "removed-replica-campaigns", "removed-replica-leads", "removed-leader-still-leader", "witness-left-witness-state",
	"leader-without-voting-quorum", "commit-without-voting-quorum", "payload-sent-to-witness", "metadata-entry-on-non-witness"}
var famC17 = []string{"stuck-higher-term-replica-ignores-leader", "stuck-witness-ahead-of-every-voter", "stuck-quorum-needs-self-removed-replica", "no-leader-in-fair-phase", "proposal-stuck-in-fair-phase", "read-stuck-in-fair-phase",
	"replica-not-caught-up", "config-change-stuck-in-fair-phase", "completed-without-quorum"}
var famC01 = []string{"linearizability-violated", "stale-read-index", "write-applied-twice", "read-confirmed-without-voting-quorum"}

func union(lists ...[]string) map[string]bool {
	m := map[string]bool{}
	for _, l := range lists {
		for _, n := range l {
			m[n] = true
		}
	}
	return m
}

func getProfile(name string) profile {
	w := baseWeights()
	p := profile{name: name, weights: w, maxAct: 220}
	switch name {
	case "C02":
		p.allowDup = true
		p.family = union(famC02)
		p.prefixes = []string{"raft-panic:", "raft-error:"}
		w[aStepCrash] = 4
		w[aCrash] = 3
		w[aSnapshot] = 3
	case "C03":
		p.allowDup = true
		p.family = union(famC03)
		w[aTick] = 10
		w[aTimeoutOff] = 3
		w[aCrash] = 3
		w[aRestart] = 4
		w[aStepCrash] = 4
		w[aPropose] = 4
		w[aIsolate] = 2
	case "C04":
		p.allowDup = true
		p.family = union(famC04)
		w[aStepCrash] = 6
		w[aCrash] = 3
		w[aRestart] = 5
	case "C06":
		p.allowDup = true
		p.family = union(famC06)
		w[aRead] = 10
		w[aPartition] = 3
		w[aIsolate] = 3
		w[aTick] = 9
	case "C07":
		p.allowDup = true
		p.family = union(famC07, famC02, famC03)
		p.prefixes = []string{"raft-panic:", "raft-error:"}
		p.minSpare = 1
		w[aConfChange] = 9
		w[aStartJoin] = 4
		w[aCrash] = 3
		w[aIsolate] = 2
	case "C18":
		p.allowDup = true
		p.family = union(famC18)
		p.prefixes = []string{"raft-panic:nonVoting", "raft-panic:witness", "raft-panic:could-not-promote"}
		p.minSpare = 1
		p.spareBias = []int{int(kNonVoting), int(kWitness), int(kNonVoting), int(kWitness), int(kVoter)}
		w[aConfChange] = 7
		w[aStartJoin] = 5
		w[aSnapshot] = 3
		w[aTransferToRemoved] = 3
		w[aWitnessStaleMatch] = 4
		w[aJoinFlow] = 4
		p.voterBias = []int{3, 4, 4, 4, 5, 3, 4, 2}
	case "C17":
		p.allowDup = true
		p.family = union(famC17)
		p.prefixes = []string{"raft-panic:", "raft-error:"}
		p.fair = true
		p.maxAct = 120
	case "C01":
		p.allowDup = false
		p.family = union(famC01)
		p.lin = true
		w[aDup] = 0
		w[aPropose] = 10
		w[aRead] = 9
		w[aApply] = 8
	default:
		panic("unknown profile " + name)
	}
	return p
}

func genShape(t *rapid.T, p profile) simShape {
	sh := simShape{
		Voters:      []int{1, 2, 3, 3, 3, 3, 4, 5}[vfhelp.Pick(t, "voters", 3)],
		PreVote:     rapid.Bool().Draw(t, "prevote"),
		CheckQuorum: rapid.Bool().Draw(t, "checkquorum"),
		Ordered:     rapid.Bool().Draw(t, "ordered"),
		ElectionRTT: []int{3, 4, 5, 6}[vfhelp.Pick(t, "ert", 2)],
		Warm:        vfhelp.Pick(t, "warm", 2) > 0,
	}
	if len(p.voterBias) > 0 {
		sh.Voters = p.voterBias[vfhelp.PickN(t, "votersb", len(p.voterBias))]
	}
	sh.TinyMsg = rapid.Bool().Draw(t, "tinymsg")
	sh.TinyInMem = rapid.Bool().Draw(t, "tinyinmem")
	sh.LingerRemoved = rapid.Bool().Draw(t, "lingerremoved")
	nsp := p.minSpare + vfhelp.PickN(t, "nspare", 4-p.minSpare)
	for i := 0; i < nsp; i++ {
		if len(p.spareBias) > 0 {
			sh.Spares = append(sh.Spares, p.spareBias[vfhelp.PickN(t, "sparekind", len(p.spareBias))])
		} else {
			sh.Spares = append(sh.Spares, []int{0, 0, 1, 2}[vfhelp.Pick(t, "sparekind", 2)])
		}
	}
	for i := 0; i < sh.Voters+nsp; i++ {
		sh.TimeoutOffs = append(sh.TimeoutOffs, vfhelp.PickN(t, "toff", sh.ElectionRTT))
	}
	sh.Unreach = vfhelp.Pick(t, "unreach", 1) == 1
	if sh.Warm && nsp > 0 && vfhelp.Pick(t, "earlyjoin", 1) == 1 {
		sh.EarlyJoin = 1 + vfhelp.PickN(t, "earlyjoinn", nsp)
	}
	return sh
}

func genAction(p profile) *rapid.Generator[simAction] {
	var kinds []int
	for k := 0; k < numActionKinds; k++ {
		for i := 0; i < p.weights[k]; i++ {
			kinds = append(kinds, k)
		}
	}
	return rapid.Custom(func(t *rapid.T) simAction {
		return simAction{
			Kind: kinds[vfhelp.PickN(t, "kind", len(kinds))],
			A:    vfhelp.Pick(t, "a", 6),
			B:    vfhelp.Pick(t, "b", 6),
			C:    vfhelp.Pick(t, "c", 4),
		}
	})
}

func genCase(t *rapid.T, p profile) simCase {
	c := simCase{Shape: genShape(t, p)}
	n := 10 + vfhelp.PickN(t, "nactions", p.maxAct-9)
	c.Actions = rapid.SliceOfN(genAction(p), n, n).Draw(t, "actions")
	return c
}

// ---------------------------------------------------------------------------

type simResult struct {
	sig     string
	msg     string
	foreign bool
	s       *sim
}

func (s *sim) isolateBoth(x uint64) {
	for _, id := range s.ids {
		if id != x {
			s.blocked[[2]uint64{id, x}] = true
			s.blocked[[2]uint64{x, id}] = true
		}
	}
}

func (s *sim) healReplica(x uint64) {
	for k := range s.blocked {
		if k[0] == x || k[1] == x {
			delete(s.blocked, k)
		}
	}
}

// campaignNow ticks one replica until it starts a campaign and then exchanges
// messages for a few tick-less rounds.
func (s *sim) campaignNow(r *simReplica, rounds int) {
	if !r.running() || r.kind != kVoter {
		return
	}
	startTerm := r.raft().term
	for i := 0; i < 2*int(s.opts.electionRTT)+1 && r.running(); i++ {
		st := r.raft().state
		if (st == candidate || st == preVoteCandidate) && r.raft().term >= startTerm || st == leader {
			break
		}
		s.tick(r)
	}
	for i := 0; i < rounds+1; i++ {
		s.round(false)
	}
}

// deliverBetween delivers, in order, every message in flight between two replicas.
func (s *sim) deliverBetween(x, y uint64) {
	var rest, mine []simMsg
	for _, m := range s.net {
		if (m.m.From == x && m.m.To == y) || (m.m.From == y && m.m.To == x) {
			mine = append(mine, m)
		} else {
			rest = append(rest, m)
		}
	}
	s.net = rest
	for _, m := range mine {
		s.checkNotMutated(m)
		s.deliverMsg(m.m)
	}
}

func (s *sim) rep(i int) *simReplica { return s.reps[s.ids[i%len(s.ids)]] }

func (s *sim) startedRep(i int) *simReplica {
	var rs []*simReplica
	for _, id := range s.ids {
		if s.reps[id].started {
			rs = append(rs, s.reps[id])
		}
	}
	if len(rs) == 0 {
		return nil
	}
	return rs[i%len(rs)]
}

func (s *sim) setup(sh simShape) {
	s.lingerRemoved = sh.LingerRemoved
	s.unreach = sh.Unreach
	for i := 1; i <= sh.Voters; i++ {
		r := s.addReplica(uint64(i), kVoter, true)
		r.timeoutOff = uint64(sh.TimeoutOffs[i-1])
	}
	for i, k := range sh.Spares {
		id := uint64(sh.Voters + 1 + i)
		r := s.addReplica(id, simKind(k), false)
		r.timeoutOff = uint64(sh.TimeoutOffs[sh.Voters+i])
	}
	for i := 1; i <= sh.Voters; i++ {
		s.start(s.reps[uint64(i)])
	}
	if sh.Warm {
		for i := 0; i < 3*sh.ElectionRTT && s.leader() == nil; i++ {
			s.round(true)
		}
		for i := 0; i < 2; i++ {
			s.round(true)
		}
		for i := 0; i < sh.EarlyJoin; i++ {
			// (C odd: no promotion, the joiner keeps the role it joined with)
			s.doAction(simAction{Kind: aJoinFlow, B: i, C: 1})
			s.flag("early-join")
		}
	}
}

// latestMembership is the membership at the highest applied index anywhere.
func (s *sim) latestMembership() (simMembership, *simReplica) {
	var best *simReplica
	for _, id := range s.ids {
		r := s.reps[id]
		if r.started && r.up && (best == nil || r.applied > best.applied) {
			best = r
		}
	}
	if best == nil {
		return newSimMembership(), nil
	}
	return best.mem, best
}

func (s *sim) genConfChange(a simAction) (*simReplica, pb.ConfigChange, bool) {
	r := s.rep(a.A)
	mem, _ := s.latestMembership()
	var cc pb.ConfigChange
	ccid := mem.CCID
	switch a.C % 8 {
	case 7:
		ccid = uint64(a.B) // stale / arbitrary id
		s.flag("cc-stale-ccid")
	}
	cc.ConfigChangeId = ccid
	target := s.rep(a.B)
	switch a.C % 7 {
	case 0, 1, 2: // add a spare with the type matching its configured kind (or promote a non-voting)
		var cands []*simReplica
		for _, id := range s.ids {
			x := s.reps[id]
			if !x.initial {
				cands = append(cands, x)
			}
		}
		if len(cands) == 0 {
			return nil, cc, false
		}
		target = cands[a.B%len(cands)]
		cc.ReplicaID = target.id
		cc.Address = simAddr(target.id)
		switch target.kind {
		case kVoter:
			cc.Type = pb.AddNode
			if _, isN := mem.NonVotings[target.id]; isN {
				s.flag("cc-promotion")
			}
		case kNonVoting:
			cc.Type = pb.AddNonVoting
			if _, isN := mem.NonVotings[target.id]; isN && a.C%2 == 0 {
				cc.Type = pb.AddNode // promotion
				s.flag("cc-promotion")
			}
		case kWitness:
			cc.Type = pb.AddWitness
		}
	case 3, 4: // remove any member
		cc.Type = pb.RemoveNode
		cc.ReplicaID = target.id
		if _, ok := mem.Addresses[target.id]; ok && len(mem.Addresses) == 1 {
			s.flag("cc-remove-last-voter")
		}
	case 5: // re-add an existing / removed id with its own kind's type (must be rejected when removed)
		cc.ReplicaID = target.id
		cc.Address = simAddr(target.id)
		switch target.kind {
		case kVoter:
			cc.Type = pb.AddNode
		case kNonVoting:
			cc.Type = pb.AddNonVoting
		case kWitness:
			cc.Type = pb.AddWitness
		}
		if mem.Removed[target.id] {
			s.flag("cc-readd-removed")
		}
	case 6: // add with an address already in use by another member (must be rejected)
		var spare *simReplica
		for _, id := range s.ids {
			x := s.reps[id]
			_, inV := mem.Addresses[id]
			_, inN := mem.NonVotings[id]
			_, inW := mem.Witnesses[id]
			if !x.initial && !inV && !inN && !inW && !mem.Removed[id] {
				spare = x
				break
			}
		}
		other := uint64(0)
		for _, id := range sortedKeys(mem.Addresses) {
			other = id
			break
		}
		if spare == nil || other == 0 {
			return nil, cc, false
		}
		cc.ReplicaID = spare.id
		cc.Address = simAddr(other)
		switch spare.kind {
		case kVoter:
			cc.Type = pb.AddNode
		case kNonVoting:
			cc.Type = pb.AddNonVoting
		case kWitness:
			cc.Type = pb.AddWitness
		}
		s.flag("cc-address-collision")
	}
	return r, cc, true
}

func (s *sim) doAction(a simAction) {
	s.clock++
	switch a.Kind {
	case aTick:
		s.tick(s.rep(a.A))
	case aTickAll:
		for _, r := range s.runningReps() {
			s.tick(r)
		}
	case aStep:
		s.step(s.rep(a.A), 0)
	case aDeliver:
		n := 1 + a.C%3
		for i := 0; i < n; i++ {
			s.deliver(a.A+i*a.B, false)
		}
	case aDeliverTo:
		// deliver everything addressed to one replica, in order
		to := s.rep(a.A).id
		var rest []simMsg
		var mine []simMsg
		for _, m := range s.net {
			if m.m.To == to {
				mine = append(mine, m)
			} else {
				rest = append(rest, m)
			}
		}
		s.net = rest
		for _, m := range mine {
			s.checkNotMutated(m)
			s.deliverMsg(m.m)
		}
	case aDrop:
		if len(s.net) > 0 {
			k := a.A % len(s.net)
			m := s.net[k].m
			s.net = append(s.net[:k:k], s.net[k+1:]...)
			if m.Type == pb.InstallSnapshot {
				s.statusQ = append(s.statusQ, snapStatus{to: m.From, about: m.To, reject: true})
			}
			s.flag("msg-dropped")
			s.tr("drop %s %d->%d", m.Type, m.From, m.To)
		}
	case aDup:
		if s.opts.allowDup && len(s.net) > 0 {
			s.flag("msg-duplicated")
			s.deliver(a.A, true)
		}
	case aPropose:
		s.propose(s.rep(a.A), fmt.Sprintf("k%d", a.B%3), 1+a.C%3)
	case aRead:
		s.readIndex(s.rep(a.A), fmt.Sprintf("k%d", a.B%3))
	case aConfChange:
		if r, cc, ok := s.genConfChange(a); ok {
			s.configChange(r, cc)
		}
	case aApply:
		s.apply(s.rep(a.A), 1+a.B%3)
	case aSnapshot:
		s.snapshot(s.rep(a.A), uint64(a.B%6))
	case aCrash:
		r := s.rep(a.A)
		if r.running() {
			s.flag("crash")
			s.crash(r)
		}
	case aRestart:
		r := s.startedRep(a.A)
		if r != nil && !r.up && !r.removed {
			s.flag("restart")
			s.start(r)
		}
	case aStepCrash:
		s.step(s.rep(a.A), 1+a.B%3)
	case aPartition:
		// block the directed link A -> B (asymmetric) or both directions
		x, y := s.rep(a.A).id, s.rep(a.B).id
		if x != y {
			s.blocked[[2]uint64{x, y}] = true
			if a.C%2 == 0 {
				s.blocked[[2]uint64{y, x}] = true
			}
			s.flag("partition")
		}
	case aIsolate:
		// isolate one replica completely (both directions, or outbound only)
		x := s.rep(a.A).id
		for _, id := range s.ids {
			if id != x {
				if a.C%3 != 1 {
					s.blocked[[2]uint64{id, x}] = true
				}
				if a.C%3 != 2 {
					s.blocked[[2]uint64{x, id}] = true
				}
			}
		}
		s.flag("isolate")
	case aHeal:
		s.blocked = map[[2]uint64]bool{}
	case aTransfer:
		s.transfer(s.rep(a.A), s.rep(a.B).id)
	case aStatus:
		s.deliverStatus(a.A)
	case aRounds:
		n := 1 + a.A%(2*int(s.opts.electionRTT))
		for i := 0; i < n; i++ {
			s.round(a.B%4 != 0)
		}
	case aStartJoin:
		// start a spare replica that some replica's log already proposes to add
		for off := 0; off < len(s.ids); off++ {
			r := s.rep(a.A + off)
			if !r.initial && !r.started {
				s.start(r)
				s.flag("join-started")
				break
			}
		}
	case aSplitLeader:
		// the current leader keeps accepting proposals that reach nobody (or only one
		// follower) while the rest elects a new leader: produces divergent suffixes
		l := s.leader()
		if l == nil {
			break
		}
		s.flag("split-leader")
		keep := uint64(0)
		if a.C%3 == 1 {
			keep = s.rep(a.B).id
		}
		for _, id := range s.ids {
			if id != l.id && id != keep {
				s.blocked[[2]uint64{id, l.id}] = true
				s.blocked[[2]uint64{l.id, id}] = true
			}
		}
		s.propose(l, fmt.Sprintf("k%d", a.B%3), 1+a.A%2)
		s.step(l, 0)
		if keep != 0 {
			for i := 0; i < 3; i++ {
				s.deliverBetween(l.id, keep)
				s.step(s.reps[keep], 0)
				s.step(l, 0)
			}
		}
		if a.C%2 == 0 {
			// let the others elect someone
			for i := 0; i < 3*int(s.opts.electionRTT); i++ {
				s.round(true)
				if nl := s.leader(); nl != nil && nl.id != l.id && nl.raft().term > l.raft().term {
					break
				}
			}
		}
	case aStaleLeaderDance:
		// the dance behind figure 8 of the raft paper: leader L keeps an unreplicated
		// entry, B is elected and also keeps one, L comes back and replicates its old
		// entry, L goes away, B comes back. Every step has generated variations.
		l := s.leader()
		if l == nil {
			break
		}
		var others []*simReplica
		for _, r := range s.runningReps() {
			if r.id != l.id && r.kind == kVoter {
				others = append(others, r)
			}
		}
		if len(others) < 2 {
			break
		}
		s.flag("stale-leader-dance")
		b := others[a.A%len(others)]
		s.blocked = map[[2]uint64]bool{}
		s.isolateBoth(l.id)
		s.propose(l, "k0", 1)
		s.step(l, 0)
		s.campaignNow(b, 2)
		if b.running() && b.raft().state == leader {
			s.step(b, 0)
			s.isolateBoth(b.id)
			if a.B%2 == 0 {
				s.propose(b, "k1", 1)
				s.step(b, 0)
			}
		}
		s.healReplica(l.id)
		s.isolateBoth(b.id)
		for i := 0; i < 3 && l.running() && l.raft().state != leader; i++ {
			s.campaignNow(l, 2)
		}
		for i := 0; i < 1+a.C%4; i++ {
			s.round(false)
		}
		if a.B%3 == 0 {
			s.crash(l)
		} else {
			s.isolateBoth(l.id)
		}
		s.healReplica(b.id)
		if !l.up {
			s.blocked = map[[2]uint64]bool{}
		} else {
			s.isolateBoth(l.id)
		}
		for i := 0; i < 3 && b.running() && b.raft().state != leader; i++ {
			s.campaignNow(b, 2)
		}
		for i := 0; i < 3; i++ {
			s.round(false)
		}
	case aTransferLagging:
		// leadership is transferred to a voter whose apply worker is stalled behind a
		// committed membership change
		l := s.leader()
		if l == nil {
			break
		}
		var voters []*simReplica
		for _, r := range s.runningReps() {
			if r.id != l.id && r.kind == kVoter {
				if _, ok := l.mem.Addresses[r.id]; ok {
					voters = append(voters, r)
				}
			}
		}
		if len(voters) == 0 {
			break
		}
		f := voters[a.A%len(voters)]
		s.flag("transfer-to-lagging-apply")
		f.holdApply = true
		// a membership change: add the next spare, or remove/re-add something harmless
		var cc pb.ConfigChange
		found := false
		for _, id := range s.ids {
			x := s.reps[id]
			_, inV := l.mem.Addresses[id]
			_, inN := l.mem.NonVotings[id]
			_, inW := l.mem.Witnesses[id]
			if !x.initial && !inV && !inN && !inW && !l.mem.Removed[id] {
				cc = pb.ConfigChange{ReplicaID: id, Address: simAddr(id), ConfigChangeId: l.mem.CCID}
				switch x.kind {
				case kVoter:
					cc.Type = pb.AddNode
				case kNonVoting:
					cc.Type = pb.AddNonVoting
				case kWitness:
					cc.Type = pb.AddWitness
				}
				found = true
				break
			}
		}
		if !found {
			// remove some other voter (never the last two)
			if len(l.mem.Addresses) >= 3 {
				for _, r := range voters {
					if r.id != f.id {
						cc = pb.ConfigChange{Type: pb.RemoveNode, ReplicaID: r.id, ConfigChangeId: l.mem.CCID}
						found = true
						break
					}
				}
			}
		}
		if found {
			s.configChange(l, cc)
		}
		for i := 0; i < 2+a.B%3; i++ {
			s.round(false)
		}
		if nl := s.leader(); nl != nil {
			s.transfer(nl, f.id)
		}
		for i := 0; i < 2+a.C%3; i++ {
			s.round(a.C%2 == 0)
		}
		f.holdApply = false
	case aWitnessStaleMatch:
		// a leader replicates entries to a witness only, is deposed, converges with the
		// others, is elected again and must not count what the witness acknowledged in
		// the earlier term
		l := s.leader()
		if l == nil {
			break
		}
		var w *simReplica
		var others []*simReplica
		for _, r := range s.runningReps() {
			if r.id == l.id {
				continue
			}
			if _, ok := l.mem.Witnesses[r.id]; ok && r.kind == kWitness {
				if w == nil {
					w = r
				}
				continue
			}
			if _, ok := l.mem.Addresses[r.id]; ok && r.kind == kVoter {
				others = append(others, r)
			}
		}
		if w == nil || len(others) < 2 {
			break
		}
		s.flag("witness-stale-match-dance")
		cutOff := func(xs ...*simReplica) {
			in := map[uint64]bool{}
			for _, x := range xs {
				in[x.id] = true
			}
			s.blocked = map[[2]uint64]bool{}
			for _, x := range xs {
				for _, id := range s.ids {
					if !in[id] {
						s.blocked[[2]uint64{id, x.id}] = true
						s.blocked[[2]uint64{x.id, id}] = true
					}
				}
			}
		}
		// phase 1: {l, w} alone; entries reach the witness only
		cutOff(l, w)
		for i := 0; i < 4+a.A%3; i++ {
			s.propose(l, "wsm", 1)
		}
		for i := 0; i < 3; i++ {
			s.step(l, 0)
			s.deliverBetween(l.id, w.id)
			s.step(w, 0)
			s.deliverBetween(l.id, w.id)
		}
		s.step(l, 0)
		// phase 2: the rest elects a leader and commits something else
		o := others[a.B%len(others)]
		for i := 0; i < int(s.opts.electionRTT)+1; i++ {
			for _, x := range others {
				if x.running() && x.id != o.id {
					s.tick(x)
				}
			}
		}
		s.campaignNow(o, 3)
		if nl := s.leader(); nl != nil && nl.id != l.id {
			s.propose(nl, "wsm2", 1)
			s.round(false)
			s.round(false)
			s.flag("witness-stale-match-deposed")
		}
		// phase 3: healed, everybody converges, l is a follower again
		s.blocked = map[[2]uint64]bool{}
		for i := 0; i < 3; i++ {
			s.round(false)
		}
		// phase 4: l is elected again; afterwards it only reaches one voter
		for i := 0; i < int(s.opts.electionRTT)+1; i++ {
			for _, x := range s.runningReps() {
				if x.id != l.id {
					s.tick(x)
				}
			}
		}
		if cur := s.leader(); cur != nil && cur.id != l.id {
			s.isolateBoth(cur.id)
		}
		s.campaignNow(l, 3)
		if l.running() && l.raft().state == leader {
			s.flag("witness-stale-match-reelected")
			v := others[(a.B+1)%len(others)]
			cutOff(l, v)
			s.propose(l, "wsm3", 1)
			for i := 0; i < 3; i++ {
				s.step(l, 0)
				s.deliverBetween(l.id, v.id)
				s.step(v, 0)
				s.deliverBetween(l.id, v.id)
			}
			s.step(l, 0)
		}
		s.blocked = map[[2]uint64]bool{}
		for i := 0; i < 1+a.C%3; i++ {
			s.round(a.C%2 == 1)
		}
	case aTransferToRemoved:
		// leadership is handed to a voter whose removal is committed but not yet applied
		// by the leader; the TimeoutNow reaches the target after it applied its own removal
		l := s.leader()
		if l == nil || len(l.mem.Addresses) < 3 {
			break
		}
		var voters []*simReplica
		for _, r := range s.runningReps() {
			if r.id != l.id && r.kind == kVoter && !r.lingering {
				if _, ok := l.mem.Addresses[r.id]; ok {
					voters = append(voters, r)
				}
			}
		}
		if len(voters) < 2 {
			break
		}
		tg := voters[a.A%len(voters)]
		s.flag("transfer-to-removed")
		l.holdApply, tg.holdApply = true, true
		s.configChange(l, pb.ConfigChange{Type: pb.RemoveNode, ReplicaID: tg.id, ConfigChangeId: l.mem.CCID})
		for i := 0; i < 3+a.B%2; i++ {
			s.round(false)
		}
		if nl := s.leader(); nl == l {
			s.transfer(l, tg.id)
			s.step(l, 0)
		}
		// the target applies what is committed (its own removal) while the TimeoutNow is in flight
		tg.holdApply = false
		s.apply(tg, 1<<20)
		s.deliverBetween(l.id, tg.id)
		if a.C%2 == 0 {
			s.step(tg, 0)
		}
		l.holdApply = false
		for i := 0; i < 1+a.C%3; i++ {
			s.round(a.C%2 == 1)
		}
	case aDoubleVoteDance:
		// two candidates of the same term court one voter that crashes and restarts
		// between their requests
		var voters []*simReplica
		for _, r := range s.runningReps() {
			if r.kind == kVoter {
				if _, ok := r.mem.Addresses[r.id]; ok {
					voters = append(voters, r)
				}
			}
		}
		if len(voters) < 3 {
			break
		}
		s.flag("double-vote-dance")
		x, y, v := voters[a.A%len(voters)], voters[(a.A+1)%len(voters)], voters[(a.A+2)%len(voters)]
		s.blocked = map[[2]uint64]bool{}
		// nobody hears the current leader any more; x and y time out together
		for _, r := range voters {
			if r.raft().state == leader {
				s.isolateBoth(r.id)
			}
		}
		// optionally let v learn the new term first without voting (a higher-term message that is not a vote request)
		for i := 0; i < 2*int(s.opts.electionRTT)+1; i++ {
			if x.running() && x.raft().state != candidate {
				s.tick(x)
			}
			if y.running() && y.raft().state != candidate {
				s.tick(y)
			}
		}
		s.step(x, 0)
		s.step(y, 0)
		// deliver only x's request to v, let v answer, then crash and restart v
		var rest []simMsg
		for _, m := range s.net {
			if m.m.From == x.id && m.m.To == v.id {
				s.checkNotMutated(m)
				s.deliverMsg(m.m)
			} else {
				rest = append(rest, m)
			}
		}
		s.net = rest
		s.step(v, 0)
		if a.B%2 == 0 {
			s.crash(v)
			s.start(v)
		}
		// now everything else
		for i := 0; i < 3; i++ {
			s.round(false)
		}
		// whoever believes to be leader accepts a proposal
		for _, r := range []*simReplica{x, y} {
			if r.running() && r.raft().state == leader {
				s.propose(r, fmt.Sprintf("k%d", a.C%3), 1)
			}
		}
		for i := 0; i < 2; i++ {
			s.round(false)
		}
	case aHealOne:
		x := s.rep(a.A).id
		for k := range s.blocked {
			if k[0] == x || k[1] == x {
				delete(s.blocked, k)
			}
		}
	case aElect:
		// replica A times out now and its election messages are exchanged
		r := s.rep(a.A)
		if !r.running() || r.kind != kVoter {
			break
		}
		for i := 0; i < 2*int(s.opts.electionRTT)+1 && r.running(); i++ {
			st := r.raft().state
			if st == candidate || st == leader {
				break
			}
			s.tick(r)
		}
		for i := 0; i < 3; i++ {
			s.round(false)
		}
	case aLagSnapshot:
		// one follower misses a stretch of the log that the leader then compacts
		l := s.leader()
		f := s.rep(a.A)
		if l == nil || f.id == l.id {
			break
		}
		s.flag("lag-snapshot-flow")
		for _, id := range s.ids {
			if id != f.id {
				s.blocked[[2]uint64{id, f.id}] = true
				s.blocked[[2]uint64{f.id, id}] = true
			}
		}
		for i := 0; i < 2+a.B%3; i++ {
			s.propose(l, "k0", 1)
			s.round(false)
		}
		if a.B%2 == 1 {
			// the cut lasts longer than an election timeout (check quorum marks the follower
			// inactive) and the leader keeps proposing after it compacted its log
			for i := 0; i < int(s.opts.electionRTT)+2; i++ {
				s.round(true)
			}
		}
		s.snapshot(l, uint64(a.C%2))
		s.round(false)
		if a.B%2 == 1 {
			if l2 := s.leader(); l2 != nil {
				s.propose(l2, "k1", 1)
				s.round(false)
				s.propose(l2, "k1", 1)
				s.round(false)
			}
		}
		for k := range s.blocked {
			if k[0] == f.id || k[1] == f.id {
				delete(s.blocked, k)
			}
		}
	case aJoinFlow:
		// add the next spare through the leader, start it, let it catch up, and
		// (for a non-voting spare) sometimes promote it
		l := s.leader()
		if l == nil {
			break
		}
		for _, id := range s.ids {
			x := s.reps[id]
			if x.initial || x.started {
				continue
			}
			cc := pb.ConfigChange{ReplicaID: id, Address: simAddr(id), ConfigChangeId: l.mem.CCID}
			switch x.kind {
			case kVoter:
				cc.Type = pb.AddNode
			case kNonVoting:
				cc.Type = pb.AddNonVoting
			case kWitness:
				cc.Type = pb.AddWitness
			}
			s.flag("join-flow")
			s.configChange(l, cc)
			for i := 0; i < 3; i++ {
				s.round(true)
			}
			s.start(x)
			s.flag("join-started")
			for i := 0; i < 2+a.B%4; i++ {
				s.round(true)
			}
			if x.kind == kNonVoting && a.C%2 == 0 {
				// promotion only of a replica that really is a non-voting member (adding a
				// replica configured as non-voting directly as a full member is an operator error)
				if l2 := s.leader(); l2 != nil && l2.mem.NonVotings[id] != "" {
					s.flag("cc-promotion")
					s.configChange(l2, pb.ConfigChange{Type: pb.AddNode, ReplicaID: id, Address: simAddr(id), ConfigChangeId: l2.mem.CCID})
				}
			}
			break
		}
	case aTimeoutOff:
		r := s.rep(a.A)
		r.timeoutOff = uint64(a.B)
		if r.running() {
			s.fixTimeout(r)
		}
	}
	s.actionsDone++
	if s.actionsDone%16 == 0 {
		s.checkAll()
	}
}

// fairPhase: C17. All replicas are (re)started, all links healed, and a canonical
// fair schedule runs for a fixed budget. Progress is required within it.
func (s *sim) fairPhase(requireProgress bool) {
	s.blocked = map[[2]uint64]bool{}
	mem, _ := s.latestMembership()
	for _, id := range s.ids {
		r := s.reps[id]
		if r.removed {
			continue
		}
		if r.started && !r.up {
			s.start(r)
		}
		// join every spare that is a member somewhere (it was added by a committed change)
		_, inV := mem.Addresses[id]
		_, inN := mem.NonVotings[id]
		_, inW := mem.Witnesses[id]
		if !r.started && (inV || inN || inW) {
			s.start(r)
		}
	}
	// distinct fixed election timeouts exclude perpetual split votes
	s.fairMode = true
	for i, id := range s.ids {
		r := s.reps[id]
		r.timeoutOff = uint64(i)
		if r.running() {
			s.fixTimeout(r)
		}
	}
	// (timeouts are drawn from [T, 5T) in the fair phase, so 80 T is roughly 30 election rounds)
	budget := 80 * int(s.opts.electionRTT)
	if !requireProgress {
		budget = 20 * int(s.opts.electionRTT)
	}
	var wop, rop *simOp
	proposedAt, readAt := -1, -1
	done := false
	for i := 0; i < budget; i++ {
		s.round(true)
		// the operator starts every replica that a committed change has added
		if lm, _ := s.latestMembership(); true {
			for _, id := range s.ids {
				r := s.reps[id]
				_, inV := lm.Addresses[id]
				_, inN := lm.NonVotings[id]
				_, inW := lm.Witnesses[id]
				if !r.started && !r.removed && (inV || inN || inW) {
					s.start(r)
				}
				// a replica that was removed without noticing keeps campaigning with ever
				// higher terms; without CheckQuorum/PreVote that legitimately disrupts the
				// shard (thesis 4.2.3), so the operator stops removed replicas
				if lm.Removed[id] && r.running() && !s.opts.checkQuorum && !s.opts.preVote {
					s.crash(r)
					s.flag("fair-phase-stopped-removed-replica")
				}
			}
		}
		l := s.leader()
		if l == nil {
			continue
		}
		if wop == nil {
			// submit through some running non-witness member
			var via *simReplica
			for _, r := range s.runningReps() {
				if r.kind != kWitness && !r.lingering && len(r.mem.Addresses) > 0 && s.isMember(r) {
					if _, ok := r.mem.Addresses[r.id]; ok || r.kind == kNonVoting {
						via = r
					}
				}
			}
			if via == nil {
				continue
			}
			s.propose(via, "fair", 1)
			wop = s.ops[len(s.ops)-1]
			s.readIndex(via, "fair")
			rop = s.ops[len(s.ops)-1]
			proposedAt, readAt = i, i
			continue
		}
		// client side timeout: a request forwarded to a leader that dropped it (e.g.
		// during a leadership transfer) ends in Timeout at the client, which retries
		if i-proposedAt > 3*int(s.opts.electionRTT) && wop.outcome == "" {
			wop.outcome = "unknown"
			delete(s.reps[wop.rep].pendingProps, wop.entKey)
			s.flag("fair-phase-client-timeout")
		}
		if i-readAt > 3*int(s.opts.electionRTT) && rop != nil && rop.outcome == "" {
			rop.outcome = "lost"
			delete(s.reps[rop.rep].pendingReads, rop.ctx)
			s.flag("fair-phase-client-timeout")
		}
		if wop.outcome == "dropped" || wop.outcome == "unknown" {
			wop = nil
			continue
		}
		if rop != nil && (rop.outcome == "dropped" || rop.outcome == "lost") {
			via := s.reps[rop.rep]
			if !via.running() || via.lingering {
				// the client's replica is gone (it applied its own removal): the client
				// goes to another member
				for _, r := range s.runningReps() {
					if r.kind != kWitness && !r.lingering && len(r.mem.Addresses) > 0 && s.isMember(r) {
						if _, ok := r.mem.Addresses[r.id]; ok || r.kind == kNonVoting {
							via = r
						}
					}
				}
			}
			if via.running() && !via.lingering {
				s.readIndex(via, "fair")
				rop = s.ops[len(s.ops)-1]
				readAt = i
			}
		}
		if wop.outcome == "completed" && rop != nil && rop.outcome == "completed" {
			// everyone reachable must catch up to the leader's commit index
			all := true
			lc := l.raft().log.committed
			for _, r := range s.runningReps() {
				if !s.isMember(r) {
					continue
				}
				if r.applied < lc {
					all = false
				}
			}
			if all {
				done = true
				break
			}
		}
	}
	if !requireProgress {
		if done {
			s.finalAgreement()
		}
		return
	}
	if done {
		s.flag("fair-phase-progress")
		s.finalAgreement()
		return
	}
	if f, ok := s.stuckHigherTermNonCampaigner(); ok {
		s.fail("stuck-higher-term-replica-ignores-leader", "replica %d has a higher term than the leader (a removed or partitioned replica asked it for a vote), silently ignores the leader's messages because neither CheckQuorum nor PreVote is enabled, and cannot campaign itself because it is not (yet) in its own membership: it never catches up; %s", f, s.describe())
	}
	if s.leader() == nil && !s.anyElectable() {
		// nobody can win an election in this state; tolerated only for the two known
		// ways of getting there
		for _, id := range s.ids {
			r0 := s.reps[id]
			if !r0.removed {
				continue
			}
			for _, r := range s.runningReps() {
				if r.kind == kVoter && r.mem.voting()[r0.id] {
					s.fail("stuck-quorum-needs-self-removed-replica", "replica %d committed and applied its own removal and stopped, replica %d still counts it as a voting member and no running voting member can win an election; %s", r0.id, r.id, s.describe())
				}
			}
		}
		if w, ok := s.stuckBehindWitness(); ok {
			s.fail("stuck-witness-ahead-of-every-voter", "witness %d holds entries that no full voting member holds and no running voting member can win an election; %s", w, s.describe())
		}
	}
	if w, ok := s.stuckBehindWitness(); ok {
		s.fail("stuck-witness-ahead-of-every-voter", "witness %d holds entries that no full voting member holds any more (sent to it before the leader's own save, which a crash then lost): it refuses its vote to every candidate and cannot lead itself; %s", w, s.describe())
	}
	if who, ok := s.stuckOnSelfRemoved(); ok {
		s.fail("stuck-quorum-needs-self-removed-replica", "replica %d committed and applied its own removal and stopped, but the remaining members never learnt the commit and cannot reach the old quorum without it; %s", who, s.describe())
	}
	l := s.leader()
	if l == nil {
		s.fail("no-leader-in-fair-phase", "no leader after %d fair rounds; %s", budget, s.describe())
	}
	if wop == nil || wop.outcome != "completed" {
		s.fail("proposal-stuck-in-fair-phase", "proposal not completed after %d fair rounds; %s", budget, s.describe())
	}
	if rop == nil || rop.outcome != "completed" {
		s.fail("read-stuck-in-fair-phase", "read not completed after %d fair rounds; %s", budget, s.describe())
	}
	s.fail("replica-not-caught-up", "a reachable replica did not catch up after %d fair rounds; %s", budget, s.describe())
}

// anyElectable: could any running full voting member win an election in the
// current state (its own membership view decides the quorum, every running
// replica it counts grants its vote iff the candidate's log is up to date)?
func (s *sim) anyElectable() bool {
	type lg struct{ term, index uint64 }
	last := func(r *simReplica) lg {
		l := r.raft().log
		t, _ := l.lastTerm()
		return lg{t, l.lastIndex()}
	}
	for _, c := range s.runningReps() {
		if c.kind != kVoter {
			continue
		}
		if _, ok := c.mem.Addresses[c.id]; !ok {
			continue
		}
		voting := c.mem.voting()
		cl := last(c)
		grants := 1
		for _, r := range s.runningReps() {
			if r.id == c.id || !voting[r.id] {
				continue
			}
			rl := last(r)
			if cl.term > rl.term || (cl.term == rl.term && cl.index >= rl.index) {
				grants++
			}
		}
		if grants >= len(voting)/2+1 {
			return true
		}
	}
	return false
}

// stuckHigherTermNonCampaigner recognises the stuck shape of known finding F5.
func (s *sim) stuckHigherTermNonCampaigner() (uint64, bool) {
	if s.opts.checkQuorum || s.opts.preVote {
		return 0, false
	}
	l := s.leader()
	if l == nil {
		return 0, false
	}
	for _, r := range s.runningReps() {
		if r.id == l.id || r.raft().term <= l.raft().term {
			continue
		}
		if r.raft().selfRemoved() || r.kind != kVoter {
			return r.id, true
		}
		// it may campaign, but in its own (stale) membership view it cannot collect a
		// quorum from the replicas that are running (e.g. it counts a replica that was
		// removed and stopped in the meantime): its term only grows, the leader never
		// hears about it (vote requests go to the members it knows), same root cause
		if !s.electable(r) {
			return r.id, true
		}
	}
	return 0, false
}

// electable: could c win an election in the current state, judged by its own
// membership view (every running replica it counts grants iff c's log is up to date)?
func (s *sim) electable(c *simReplica) bool {
	if c.kind != kVoter {
		return false
	}
	if _, ok := c.mem.Addresses[c.id]; !ok {
		return false
	}
	cl := c.raft().log
	ct, _ := cl.lastTerm()
	voting := c.mem.voting()
	grants := 1
	for _, r := range s.runningReps() {
		if r.id == c.id || !voting[r.id] {
			continue
		}
		rl := r.raft().log
		rt, _ := rl.lastTerm()
		if ct > rt || (ct == rt && cl.lastIndex() >= rl.lastIndex()) {
			grants++
		}
	}
	return grants >= len(voting)/2+1
}

// stuckBehindWitness recognises the stuck shape of known finding F4: a running
// witness whose log is more up to date than the log of every running full voting
// member of its membership, while its vote is needed for a quorum.
func (s *sim) stuckBehindWitness() (uint64, bool) {
	for _, w := range s.runningReps() {
		if w.kind != kWitness {
			continue
		}
		wl := w.raft().log
		wt, err := wl.lastTerm()
		if err != nil {
			continue
		}
		voting := w.mem.voting()
		ahead := true
		voters := 0
		for _, r := range s.runningReps() {
			if r.kind != kVoter || !voting[r.id] {
				continue
			}
			voters++
			rl := r.raft().log
			rt, err := rl.lastTerm()
			if err != nil {
				continue
			}
			if rt > wt || (rt == wt && rl.lastIndex() >= wl.lastIndex()) {
				ahead = false
			}
		}
		// the witness's vote is needed when the running full voters alone are no majority
		if ahead && voters > 0 && voters < len(voting)/2+1 {
			return w.id, true
		}
	}
	return 0, false
}

// stuckOnSelfRemoved recognises one specific stuck shape (known finding F2): some
// replica applied its own removal and stopped, every running replica still
// counts it as a voting member, and without it the running voting members are
// not a majority of that (old) membership.
func (s *sim) stuckOnSelfRemoved() (uint64, bool) {
	for _, id := range s.ids {
		r0 := s.reps[id]
		if !r0.removed {
			continue
		}
		all := true
		any := false
		for _, r := range s.runningReps() {
			if r.kind != kVoter || len(r.mem.Addresses) == 0 {
				// (a started replica whose addition never committed is not part of the shard)
				continue
			}
			any = true
			voting := r.mem.voting()
			if !voting[r0.id] {
				all = false
				break
			}
			cnt := 0
			for v := range voting {
				if vr, ok := s.reps[v]; ok && vr.running() {
					cnt++
				}
			}
			if cnt >= len(voting)/2+1 {
				all = false
				break
			}
		}
		if all && any {
			return r0.id, true
		}
		// shape B: the self-removed replica held the only full copy of some committed
		// entry (the others are behind, or are witnesses holding metadata only), so
		// nobody that may lead can ever be up to date again
		for idx, sig := range s.committed {
			held := false
			for _, r := range s.runningReps() {
				if r.kind != kWitness && s.holds(r, idx, sig.term) {
					held = true
					break
				}
			}
			if !held && s.holds(r0, idx, sig.term) {
				return r0.id, true
			}
		}
	}
	return 0, false
}

// isMember: the replica is part of the latest membership (a removed or never
// added replica is not required to catch up).
func (s *sim) isMember(r *simReplica) bool {
	mem, _ := s.latestMembership()
	_, inV := mem.Addresses[r.id]
	_, inN := mem.NonVotings[r.id]
	_, inW := mem.Witnesses[r.id]
	return inV || inN || inW
}

func (s *sim) finalAgreement() {
	s.checkAll()
	var ref *simReplica
	for _, r := range s.runningReps() {
		if !s.isMember(r) || r.kind == kWitness {
			continue
		}
		if ref == nil {
			ref = r
			continue
		}
		if r.applied == ref.applied && (r.hash != ref.hash || r.mem.String() != ref.mem.String()) {
			s.fail("final-divergence", "replicas %d and %d at applied %d differ", ref.id, r.id, r.applied)
		}
	}
}

func (s *sim) describe() string {
	var sb strings.Builder
	for _, id := range s.ids {
		r := s.reps[id]
		if !r.started {
			fmt.Fprintf(&sb, "[%d %s not-started] ", id, r.kind)
			continue
		}
		if !r.running() {
			fmt.Fprintf(&sb, "[%d %s down removed=%v] ", id, r.kind, r.removed)
			continue
		}
		rf := r.raft()
		fmt.Fprintf(&sb, "[%d %s %s t%d lead%d c%d a%d last%d mem %s", id, r.kind, rf.state, rf.term, rf.leaderID,
			rf.log.committed, r.applied, rf.log.lastIndex(), r.mem)
		if rf.state == leader {
			for _, nid := range rf.nodesSorted() {
				var rp *remote
				if v, ok := rf.remotes[nid]; ok {
					rp = v
				} else if v, ok := rf.nonVotings[nid]; ok {
					rp = v
				} else {
					rp = rf.witnesses[nid]
				}
				fmt.Fprintf(&sb, " r%d{%s act=%v}", nid, rp, rp.active)
			}
		}
		sb.WriteString("] ")
	}
	fmt.Fprintf(&sb, "net=%d statusQ=%d", len(s.net), len(s.statusQ))
	return sb.String()
}

// ---------------------------------------------------------------------------
// linearizability (C01): per key register model, independent of dragonboat
// ---------------------------------------------------------------------------

type linIn struct {
	write bool
	key   string
	val   string
}

var registerModel = porcupine.Model{
	Partition: func(history []porcupine.Operation) [][]porcupine.Operation {
		m := map[string][]porcupine.Operation{}
		var keys []string
		for _, op := range history {
			k := op.Input.(linIn).key
			if _, ok := m[k]; !ok {
				keys = append(keys, k)
			}
			m[k] = append(m[k], op)
		}
		sort.Strings(keys)
		var out [][]porcupine.Operation
		for _, k := range keys {
			out = append(out, m[k])
		}
		return out
	},
	Init: func() interface{} { return "" },
	Step: func(state, input, output interface{}) (bool, interface{}) {
		in := input.(linIn)
		if in.write {
			return true, in.val
		}
		return output.(string) == state.(string), state
	},
	Equal: func(a, b interface{}) bool { return a.(string) == b.(string) },
}

func (s *sim) checkLinearizable() {
	var hist []porcupine.Operation
	end := int64(s.clock + 10)
	for _, op := range s.ops {
		switch {
		case op.write && op.outcome == "completed":
			hist = append(hist, porcupine.Operation{ClientId: op.id, Input: linIn{true, op.key, op.val}, Call: int64(op.invoke), Output: "", Return: int64(op.ret)})
		case op.write && op.outcome == "dropped":
			// reported Dropped: never took effect; keeping it out of the history makes
			// any read that observes its value a violation
		case op.write:
			// pending / unknown outcome: may take effect at any later point or never
			hist = append(hist, porcupine.Operation{ClientId: op.id, Input: linIn{true, op.key, op.val}, Call: int64(op.invoke), Output: "", Return: end})
		case !op.write && op.outcome == "completed":
			hist = append(hist, porcupine.Operation{ClientId: op.id, Input: linIn{false, op.key, ""}, Call: int64(op.invoke), Output: op.val, Return: int64(op.ret)})
		}
	}
	if len(hist) == 0 {
		return
	}
	res := porcupine.CheckOperationsTimeout(registerModel, hist, 3*time.Second)
	if res == porcupine.Unknown {
		// search budget exhausted: inconclusive for this case, never a violation
		s.flag("lin-check-budget-exhausted")
		return
	}
	s.flag("lin-checked")
	if res == porcupine.Illegal {
		var sb strings.Builder
		for _, op := range s.ops {
			fmt.Fprintf(&sb, "{%d %s w=%v key=%s val=%s rep=%d [%d,%d] %s} ", op.id, map[bool]string{true: "W", false: "R"}[op.write], op.write, op.key, op.val, op.rep, op.invoke, op.ret, op.outcome)
		}
		s.fail("linearizability-violated", "history is not linearizable: %s", sb.String())
	}
}

// ---------------------------------------------------------------------------
// running a case
// ---------------------------------------------------------------------------

func runCase(c simCase, p profile, tracing bool) (res simResult) {
	opts := simOpts{preVote: c.Shape.PreVote, checkQuorum: c.Shape.CheckQuorum, ordered: c.Shape.Ordered,
		electionRTT: uint64(c.Shape.ElectionRTT), allowDup: p.allowDup}
	var s *sim
	inFamily := func(sig string) bool {
		if p.family[sig] || sig == "harness-bug" {
			return true
		}
		for _, pre := range p.prefixes {
			if strings.HasPrefix(sig, pre) {
				return true
			}
		}
		return false
	}
	// violations that leave the simulated replica in a state the run cannot
	// continue from always end the case; all other monitors are pure observers,
	// so a violation of another property's family is noted and the run goes on
	// (it must not hide a later violation of this property's own family)
	fatal := func(sig string) bool {
		for _, pre := range []string{"raft-panic:", "raft-error:", "persist-gap", "snapshot-content-missing",
			"apply-gap", "recover-older-snapshot", "out-of-date-snapshot-pushed", "compact-failed"} {
			if strings.HasPrefix(sig, pre) {
				return true
			}
		}
		return false
	}
	fail := func(sig string, format string, args ...interface{}) {
		if !inFamily(sig) && !fatal(sig) {
			s.flag("foreign-violation:" + sig)
			return
		}
		panic(simViolation{msg: sig + "\x00" + fmt.Sprintf(format, args...)})
	}
	s = newSim(opts, fail)
	s.tracing = tracing
	// documented tunables (package level vars): make boundaries reachable
	defer func(a, b, c, d, e uint64) {
		maxEntrySize, maxEntriesToApplySize, entrySliceSize, minEntrySliceSize, inMemGcTimeout = a, b, c, d, e
	}(maxEntrySize, maxEntriesToApplySize, entrySliceSize, minEntrySliceSize, inMemGcTimeout)
	if c.Shape.TinyMsg {
		maxEntrySize, maxEntriesToApplySize = 150, 150
	}
	if c.Shape.TinyInMem {
		entrySliceSize, minEntrySliceSize, inMemGcTimeout = 6, 2, 3
	}
	res.s = s
	defer func() {
		if pv := recover(); pv != nil {
			v, ok := pv.(simViolation)
			if !ok {
				panic(pv)
			}
			parts := strings.SplitN(v.msg, "\x00", 2)
			res.sig, res.msg = parts[0], parts[1]
			res.foreign = !inFamily(res.sig)
		}
	}()
	if p.lin {
		s.maxOps = 36
	}
	s.setup(c.Shape)
	for _, a := range c.Actions {
		s.doAction(a)
	}
	s.checkAll()
	if p.lin {
		s.checkLinearizable()
	}
	s.fairPhase(p.fair)
	if p.lin {
		s.checkLinearizable()
	}
	return res
}

func nontrivial(prop string, s *sim) bool {
	f := s.flags
	switch prop {
	case "C02":
		return (len(s.leaders) >= 2 && f["diverged-suffix-seen"] > 0) || f["crash-before-persist"]+f["crash-after-persist"] > 0
	case "C03":
		terms := map[uint64]int{}
		for k := range s.votesCast {
			terms[k[1]]++
		}
		multi := false
		for _, r := range s.reps {
			if r.ev != nil && r.ev.campaigns > 0 {
				multi = true
			}
		}
		return (len(s.leaders) >= 2 && multi) || f["vote-regranted-same-candidate"] > 0
	case "C04":
		return f["crash-before-persist"]+f["crash-after-persist"]+f["crash-after-send"] > 0 && f["restart"] > 0
	case "C06":
		return f["read-index-confirmed"] > 0 && (len(s.leaders) >= 2 || f["read-index-via-nonleader"] > 0)
	case "C07":
		return f["cc-applied"] >= 2 && (len(s.leaders) >= 2 || f["cc-rejected"] > 0)
	case "C18":
		return f["join-started"] > 0 && (f["min-quorum-commit"] > 0 || f["min-quorum-election"] > 0) &&
			(f["replicate-to-witness"] > 0 || f["vote-from-nonvoting"] > 0 || f["promoted"] > 0 || f["cc-applied"] > 0)
	case "C17":
		return f["fair-phase-progress"] > 0 && (f["crash"]+f["partition"]+f["isolate"]+f["msg-dropped"] > 0)
	case "C01":
		w, r := 0, 0
		for _, op := range s.ops {
			if op.outcome == "completed" {
				if op.write {
					w++
				} else {
					r++
				}
			}
		}
		return w >= 2 && r >= 1 && (len(s.leaders) >= 2 || f["read-index-via-nonleader"] > 0 || f["crash"] > 0)
	}
	return false
}

func runProperty(t *testing.T, prop string) {
	p := getProfile(prop)
	st := vfhelp.NewStats("TestVF_"+prop+"_Sim",
		"E1 raftsim: generated cluster shape + action list (ticks, steps with crash cuts, message delivery/loss/duplication, "+
			"partitions, proposals, reads, membership changes, snapshots, crashes/restarts) on real raft.Peer objects; "+
			"non-trivial per property (see DESIGN 3/"+prop+"); distinct = hash of shape+actions")
	defer st.Flush()
	replay := os.Getenv("VF_TRACE") != ""
	rapid.Check(t, func(t *rapid.T) {
		c := genCase(t, p)
		res := runCase(c, p, replay)
		canon, _ := json.Marshal(c)
		if res.sig != "" && !res.foreign {
			if replay {
				for _, l := range res.s.trace {
					t.Logf("%s", l)
				}
			}
			t.Logf("shape %+v", c.Shape)
			t.Logf("actions %v", c.Actions)
			t.Logf("state: %s", res.s.describe())
			if !st.Known(t, res.sig, "%s", res.msg) {
				return
			}
		}
		labels := []string{}
		if res.foreign {
			labels = append(labels, "foreign-violation:"+res.sig)
		}
		for k := range res.s.flags {
			labels = append(labels, k)
		}
		sort.Strings(labels)
		nt := res.sig == "" && nontrivial(prop, res.s)
		st.Case(canon, nt, labels...)
		if nt && st.WantSample() {
			acts := make([]string, 0, len(c.Actions))
			for _, a := range c.Actions {
				acts = append(acts, a.String())
			}
			st.Sample(map[string]interface{}{"shape": c.Shape, "actions": strings.Join(acts, " "),
				"leaders_by_term": len(res.s.leaders), "max_commit": res.s.maxCommit, "ops": len(res.s.ops)})
		}
	})
}

func TestVF_C01_Sim(t *testing.T) { runProperty(t, "C01") }
func TestVF_C02_Sim(t *testing.T) { runProperty(t, "C02") }
func TestVF_C03_Sim(t *testing.T) { runProperty(t, "C03") }
func TestVF_C04_Sim(t *testing.T) { runProperty(t, "C04") }
func TestVF_C06_Sim(t *testing.T) { runProperty(t, "C06") }
func TestVF_C07_Sim(t *testing.T) { runProperty(t, "C07") }
func TestVF_C17_Sim(t *testing.T) { runProperty(t, "C17") }
func TestVF_C18_Sim(t *testing.T) { runProperty(t, "C18") }
