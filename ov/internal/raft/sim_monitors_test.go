// E1 raftsim: history invariants (oracles). None of them is copied from the
// code under test: they are the Raft safety argument made executable.
package raft

import (
	"errors"
	"fmt"
	"math"
	"sort"

	pb "github.com/lni/dragonboat/v4/raftpb"
)

// holds reports whether replica v's log (volatile if running, durable
// otherwise) contains entry (index, term), or a snapshot covering index.
func (s *sim) holds(v *simReplica, index uint64, term uint64) bool {
	if !v.started {
		return false
	}
	if v.up && !v.removed {
		l := v.raft().log
		if index < l.firstIndex() {
			return true // covered by its snapshot
		}
		if index > l.lastIndex() {
			return false
		}
		t, err := l.term(index)
		if err != nil {
			return errors.Is(err, ErrCompacted)
		}
		return t == term
	}
	if index <= v.disk.snap.Index {
		return true
	}
	e, ok := v.disk.get(index)
	return ok && e.Term == term
}

func (s *sim) logEntry(r *simReplica, index uint64) (pb.Entry, bool) {
	l := r.raft().log
	if index < l.firstIndex() || index > l.lastIndex() {
		return pb.Entry{}, false
	}
	var ents []pb.Entry
	var err error
	func() {
		defer func() {
			if p := recover(); p != nil {
				err = fmt.Errorf("panic %v", p)
			}
		}()
		ents, err = l.getEntries(index, index+1, math.MaxUint64)
	}()
	if err != nil || len(ents) != 1 {
		return pb.Entry{}, false
	}
	return ents[0], true
}

// checkCommittedEntry: the first time an index is known committed (or applied)
// anywhere its entry is recorded; every later sighting must be identical.
func (s *sim) checkCommittedEntry(r *simReplica, e pb.Entry, where string) {
	s.checkCommittedEntry2(r, e, where, true)
}

func (s *sim) checkCommittedEntry2(r *simReplica, e pb.Entry, where string, record bool) {
	sig := sigOf(e)
	if r.kind == kWitness && e.Type == pb.MetadataEntry {
		// witnesses hold metadata-only copies: compare index/term only
		if prev, ok := s.committed[e.Index]; ok && prev.term != e.Term {
			s.fail("committed-entry-differs", "index %d: witness %d has term %d at %s, committed term %d",
				e.Index, r.id, e.Term, where, prev.term)
		}
		return
	}
	if prev, ok := s.committed[e.Index]; ok {
		if prev != sig {
			s.fail("committed-entry-differs", "index %d: replica %d has %+v at %s, first committed as %+v",
				e.Index, r.id, sig, where, prev)
		}
		return
	}
	if !record {
		return
	}
	s.committed[e.Index] = sig
	if e.Index > s.maxCommit {
		s.maxCommit = e.Index
	}
}

// recordObservableCommit records the entries up to a commit index that became
// observable outside the replica's memory: carried by an outgoing message,
// persisted in the hard state, or handed out for apply. (An in-memory commit
// index that nobody saw and that is lost in a crash is not a commit.)
func (s *sim) recordObservableCommit(r *simReplica, upto uint64, where string) {
	l := r.raft().log
	if upto > l.lastIndex() {
		upto = l.lastIndex()
	}
	lo := r.recordedCommit + 1
	if lo < l.firstIndex() {
		lo = l.firstIndex()
	}
	for i := lo; i <= upto; i++ {
		if e, ok := s.logEntry(r, i); ok {
			s.checkCommittedEntry(r, e, where)
		}
	}
	if upto > r.recordedCommit {
		r.recordedCommit = upto
	}
}

// observe runs after every call into a replica's raft core.
func (s *sim) observe(r *simReplica) {
	rf := r.raft()
	// --- C03: at most one leader per term
	if rf.state == leader {
		if prev, ok := s.leaders[rf.term]; ok && prev != r.id {
			s.fail("two-leaders-one-term", "term %d: replica %d and replica %d both leader", rf.term, prev, r.id)
		}
		s.leaders[rf.term] = r.id
		s.everLeaderIDs[r.id] = true
	}
	// --- C18: only full voting members campaign or lead
	if rf.state == leader || rf.state == candidate || rf.state == preVoteCandidate {
		if r.kind != kVoter {
			s.fail("non-voter-campaigns", "replica %d configured as %s is in state %s", r.id, r.kind, rf.state)
		}
		if _, isN := r.mem.NonVotings[r.id]; isN {
			s.fail("non-voter-campaigns", "replica %d is non-voting in its applied membership but in state %s", r.id, rf.state)
		}
		if _, isW := r.mem.Witnesses[r.id]; isW {
			s.fail("non-voter-campaigns", "replica %d is witness in its applied membership but in state %s", r.id, rf.state)
		}
		if r.mem.Removed[r.id] && rf.state == leader {
			s.fail("removed-replica-leads", "replica %d applied its removal but is leader", r.id)
		}
		if r.mem.Removed[r.id] && rf.state != leader && (r.lingering || r.lingered) && rf.term > r.termAtRemoval {
			// the replica applied its own removal and started a campaign afterwards
			s.fail("removed-replica-campaigns", "replica %d applied its own removal at term %d and is %s in term %d", r.id, r.termAtRemoval, rf.state, rf.term)
		}
	}
	if r.kind == kWitness && rf.state != witness {
		s.fail("witness-left-witness-state", "witness %d in state %s", r.id, rf.state)
	}
	// --- term never decreases within an incarnation
	if rf.term < r.lastTerm {
		s.fail("term-regressed", "replica %d term %d after %d", r.id, rf.term, r.lastTerm)
	}
	startedCampaign := (rf.state == candidate || rf.state == preVoteCandidate) && (r.lastState != rf.state || rf.term != r.lastTerm)
	if startedCampaign {
		// C03/C07: no campaign while a committed membership change is unapplied
		l := rf.log
		lo := r.applied + 1
		if lo < l.firstIndex() {
			lo = l.firstIndex()
		}
		for i := lo; i <= l.committed && i <= l.lastIndex(); i++ {
			if e, ok := s.logEntry(r, i); ok && e.Type == pb.ConfigChangeEntry {
				s.fail("campaign-with-unapplied-config-change", "replica %d starts a campaign (term %d) although the committed config change at index %d is not applied (applied %d, committed %d)",
					r.id, rf.term, i, r.applied, l.committed)
			}
		}
	}
	becameLeader := rf.state == leader && (r.lastState != leader || rf.term != r.lastTerm)
	r.lastTerm = rf.term
	r.lastState = rf.state
	if becameLeader {
		s.flag("leader-elected")
		// --- C03 leader completeness: every committed entry is in the new leader's log
		l := rf.log
		for idx, sig := range s.committed {
			if idx < l.firstIndex() {
				continue
			}
			if idx > l.lastIndex() {
				s.fail("leader-misses-committed-entry", "replica %d became leader of term %d without committed index %d (last %d)",
					r.id, rf.term, idx, l.lastIndex())
			}
			t, err := l.term(idx)
			if err == nil && t != sig.term {
				s.fail("leader-misses-committed-entry", "replica %d became leader of term %d with term %d at committed index %d (committed term %d)",
					r.id, rf.term, t, idx, sig.term)
			}
		}
		// --- C18 election quorum: grants from voting members (+self) are a majority
		voting := r.mem.voting()
		if len(voting) > 0 {
			g := s.grants[[2]uint64{r.id, rf.term}]
			cnt := 0
			for v := range voting {
				if v == r.id || g[v] {
					cnt++
				}
			}
			if cnt < len(voting)/2+1 {
				s.fail("leader-without-voting-quorum", "replica %d leader of term %d with %d of %d voting members' votes (members %s, grants %v)",
					r.id, rf.term, cnt, len(voting), r.mem, g)
			}
			if cnt == len(voting)/2+1 && len(voting) > 1 {
				s.flag("min-quorum-election")
			}
		}
	}
	// --- commit index
	c := rf.log.committed
	if c < r.lastCommitted {
		s.fail("commit-regressed", "replica %d commit %d after %d", r.id, c, r.lastCommitted)
	}
	if c > r.lastCommitted {
		if rf.state == leader {
			// --- C18 commit quorum: voting members holding (c, term) are a majority
			voting := r.mem.voting()
			t, err := rf.log.term(c)
			if err == nil && len(voting) > 0 {
				cnt := 0
				for v := range voting {
					if vr, ok := s.reps[v]; ok && s.holds(vr, c, t) {
						cnt++
					}
				}
				if cnt < len(voting)/2+1 {
					s.fail("commit-without-voting-quorum", "leader %d committed %d (term %d) held by %d of %d voting members %s",
						r.id, c, t, cnt, len(voting), r.mem)
				}
				if cnt == len(voting)/2+1 && len(voting) > 1 {
					s.flag("min-quorum-commit")
				}
			}
		}
		r.lastCommitted = c
	}
	// --- C07: a leader has at most one config change entry beyond its applied index
	if rf.state == leader {
		cnt := 0
		l := rf.log
		lo := r.applied + 1
		if lo < l.firstIndex() {
			lo = l.firstIndex()
		}
		for i := lo; i <= l.lastIndex(); i++ {
			if e, ok := s.logEntry(r, i); ok && e.Type == pb.ConfigChangeEntry {
				cnt++
			}
		}
		if cnt > 1 {
			s.fail("two-pending-config-changes", "leader %d (term %d) has %d config change entries beyond its applied index %d",
				r.id, rf.term, cnt, r.applied)
		}
	}
}

// checkRaftMembership: C07/C18. The raft core's replication targets are exactly
// the applied membership (they change only when a change is applied or a
// snapshot is restored).
func (s *sim) checkRaftMembership(r *simReplica, when string) {
	rf := r.raft()
	same := func(a map[uint64]*remote, b map[uint64]string) bool {
		if len(a) != len(b) {
			return false
		}
		for k := range a {
			if _, ok := b[k]; !ok {
				return false
			}
		}
		return true
	}
	if !same(rf.remotes, r.mem.Addresses) || !same(rf.nonVotings, r.mem.NonVotings) || !same(rf.witnesses, r.mem.Witnesses) {
		ids := func(m map[uint64]*remote) []uint64 {
			var out []uint64
			for k := range m {
				out = append(out, k)
			}
			sort.Slice(out, func(i, j int) bool { return out[i] < out[j] })
			return out
		}
		s.fail("raft-membership-differs-from-applied", "replica %d %s: raft core has voters %v non-votings %v witnesses %v, applied membership is %s",
			r.id, when, ids(rf.remotes), ids(rf.nonVotings), ids(rf.witnesses), r.mem)
	}
}

// checkUpdate validates one pb.Update independently of the core's own checks.
func (s *sim) checkUpdate(r *simReplica, ud pb.Update) {
	rf := r.raft()
	for i, e := range ud.CommittedEntries {
		if i > 0 && e.Index != ud.CommittedEntries[i-1].Index+1 {
			s.fail("apply-gap", "replica %d: CommittedEntries not contiguous at %d", r.id, e.Index)
		}
		if e.Index > rf.log.committed {
			s.fail("apply-uncommitted", "replica %d: entry %d handed out for apply, commit index %d", r.id, e.Index, rf.log.committed)
		}
		s.checkCommittedEntry2(r, e, "update", false)
		// handed out for persistence before (or together with) apply
		saved := false
		if d, ok := r.disk.get(e.Index); ok && d.Term == e.Term {
			saved = true
		}
		for _, se := range ud.EntriesToSave {
			if se.Index == e.Index && se.Term == e.Term {
				saved = true
			}
		}
		if e.Index <= r.disk.snap.Index || e.Index <= r.reader.markerIndex {
			saved = true
		}
		if !saved {
			s.fail("apply-before-persist", "replica %d: entry %d (term %d) handed out for apply but never handed out for persistence", r.id, e.Index, e.Term)
		}
	}
	if len(ud.CommittedEntries) > 0 && len(ud.EntriesToSave) > 0 && ud.FastApply {
		la := ud.CommittedEntries[len(ud.CommittedEntries)-1].Index
		if la >= ud.EntriesToSave[0].Index {
			s.fail("fast-apply-of-unsaved", "replica %d: fast apply up to %d while entries from %d are being saved", r.id, la, ud.EntriesToSave[0].Index)
		}
	}
	for _, e := range ud.EntriesToSave {
		if prev, ok := s.committed[e.Index]; ok && e.Index <= r.lastCommittedDurable() {
			if prev.term != e.Term {
				s.fail("committed-entry-overwritten", "replica %d saves term %d at committed index %d (committed term %d)", r.id, e.Term, e.Index, prev.term)
			}
		}
	}
}

func (r *simReplica) lastCommittedDurable() uint64 { return r.disk.state.Commit }

func (s *sim) checkApplied(r *simReplica) {
	if r.kind == kWitness {
		if prev, ok := s.appliedSigs[r.applied]; ok && prev.mem != r.mem.String() {
			s.fail("applied-membership-differs", "index %d: witness %d membership %s, elsewhere %s", r.applied, r.id, r.mem, prev.mem)
		}
		return
	}
	sig := stateSig{hash: r.hash, mem: r.mem.String()}
	if prev, ok := s.appliedSigs[r.applied]; ok {
		if prev.hash != sig.hash {
			s.fail("applied-state-differs", "index %d: replica %d state hash %x, elsewhere %x", r.applied, r.id, sig.hash, prev.hash)
		}
		if prev.mem != sig.mem {
			s.fail("applied-membership-differs", "index %d: replica %d membership %s, elsewhere %s", r.applied, r.id, sig.mem, prev.mem)
		}
		return
	}
	s.appliedSigs[r.applied] = sig
}

// onSend observes every message leaving a replica (after persistence for all
// but Replicate messages).
func (s *sim) onSend(r *simReplica, m pb.Message) {
	if (m.Type == pb.Replicate || m.Type == pb.Heartbeat) && m.Commit > 0 {
		s.recordObservableCommit(r, m.Commit, "commit carried by "+m.Type.String())
	}
	switch m.Type {
	case pb.RequestVoteResp:
		if !m.Reject {
			key := [2]uint64{r.id, m.Term}
			if prev, ok := s.votesCast[key]; ok && prev != m.To {
				s.fail("two-votes-one-term", "replica %d granted its vote in term %d to %d and to %d", r.id, m.Term, prev, m.To)
			}
			if _, ok := s.votesCast[key]; ok {
				s.flag("vote-regranted-same-candidate")
			}
			s.votesCast[key] = m.To
			if r.disk.state.Term < m.Term || (r.disk.state.Term == m.Term && r.disk.state.Vote != m.To) {
				s.fail("vote-not-durable", "replica %d sends vote for %d in term %d, durable state %+v", r.id, m.To, m.Term, r.disk.state)
			}
			if r.kind == kNonVoting {
				// allowed by the protocol (non-voting members answer), must not be counted
				s.flag("vote-from-nonvoting")
			}
		}
	case pb.Replicate:
		if t, ok := s.reps[m.To]; ok && t.kind == kWitness {
			for _, e := range m.Entries {
				if e.Type != pb.MetadataEntry && e.Type != pb.ConfigChangeEntry {
					s.fail("payload-sent-to-witness", "replica %d sent entry %d type %s to witness %d", r.id, e.Index, e.Type, m.To)
				}
				if e.Type == pb.MetadataEntry && len(e.Cmd) > 0 {
					s.fail("payload-sent-to-witness", "replica %d sent metadata entry %d with payload to witness %d", r.id, e.Index, m.To)
				}
			}
			if len(m.Entries) > 0 {
				s.flag("replicate-to-witness")
			}
		}
	case pb.InstallSnapshot:
		if t, ok := s.reps[m.To]; ok && t.kind == kWitness {
			if !m.Snapshot.Witness || m.Snapshot.Filepath != "" || len(m.Snapshot.Files) > 0 {
				s.fail("payload-sent-to-witness", "replica %d sent a full snapshot to witness %d", r.id, m.To)
			}
			s.flag("snapshot-to-witness")
		}
		s.flag("snapshot-sent")
	case pb.ReplicateResp:
		if !m.Reject {
			// every acknowledged index is durable (or covered by a durable snapshot)
			if m.Term < r.disk.state.Term {
				// acknowledgement stamped with a past term: the replica has since adopted a
				// newer leader (whose entries may have replaced the acknowledged ones within
				// the same step); the old leader cannot complete a quorum with it (any
				// member of the newer leader's election quorum rejects the old term)
				s.flag("stale-term-ack")
			} else if m.LogIndex > r.disk.last() && m.LogIndex > r.disk.snap.Index && m.LogIndex > 0 && !r.ackIsCommitHint(m) {
				s.fail("ack-not-durable", "replica %d acknowledges index %d, durable last %d snapshot %d", r.id, m.LogIndex, r.disk.last(), r.disk.snap.Index)
			}
		}
	}
	if m.Type != pb.RequestPreVote && m.Type != pb.RequestPreVoteResp && m.Term > r.disk.state.Term && m.Type != pb.Replicate {
		s.fail("term-not-durable", "replica %d sends %s with term %d, durable term %d", r.id, m.Type, m.Term, r.disk.state.Term)
	}
}

// a ReplicateResp may also carry the commit index as a hint (stale Replicate):
// that index is committed, hence was durable on this replica when it learnt it
// through a persisted State.Commit... it is covered by disk.state.Commit.
func (r *simReplica) ackIsCommitHint(m pb.Message) bool {
	return m.LogIndex <= r.disk.state.Commit
}

// onDeliver observes a message about to be handled by its destination.
func (s *sim) onDeliver(r *simReplica, m pb.Message) {
	switch m.Type {
	case pb.HeartbeatResp:
		if m.Hint != 0 && r.running() && r.raft().state == leader && m.Term == r.raft().term {
			key := [2]uint64{r.id, r.raft().term}
			if s.hbAcks[key] == nil {
				s.hbAcks[key] = map[uint64]map[uint64]bool{}
			}
			if s.hbAcks[key][m.Hint] == nil {
				s.hbAcks[key][m.Hint] = map[uint64]bool{}
			}
			// a confirmation counts when its sender is a voting member at the time it answers
			if r.mem.voting()[m.From] {
				s.hbAcks[key][m.Hint][m.From] = true
			}
		}
	case pb.RequestVoteResp:
		if !m.Reject {
			key := [2]uint64{r.id, m.Term}
			if s.grants[key] == nil {
				s.grants[key] = map[uint64]bool{}
			}
			s.grants[key][m.From] = true
		}
	}
}

// checkReadQuorum: C06/C18. A leader releases a read context only after a quorum
// of *voting* members (harness's view of the leader's applied membership, judged
// when each of them answered) answered a heartbeat carrying that context or one
// queued behind it, counting itself. queue is the leader's queue of pending
// contexts just before the confirmation that triggered the release.
func (s *sim) checkReadQuorum(l *simReplica, ctxLow uint64, queue []uint64, how string) {
	if !l.running() || l.raft().state != leader {
		return
	}
	voting := l.mem.voting()
	if len(voting) <= 1 {
		return
	}
	pos := -1
	for i, c := range queue {
		if c == ctxLow {
			pos = i
		}
	}
	if pos < 0 {
		return
	}
	acks := map[uint64]bool{}
	all := s.hbAcks[[2]uint64{l.id, l.raft().term}]
	for _, c := range queue[pos:] {
		for f := range all[c] {
			acks[f] = true
		}
	}
	cnt := 1
	for v := range acks {
		if v != l.id {
			cnt++
		}
	}
	if cnt < len(voting)/2+1 {
		s.fail("read-confirmed-without-voting-quorum", "leader %d (term %d) released read ctx %d (%s) with confirmations from %d of %d voting members (membership %s, heartbeat responses from voting members %v)",
			l.id, l.raft().term, ctxLow, how, cnt, len(voting), l.mem, acks)
	}
	if cnt == len(voting)/2+1 {
		s.flag("min-quorum-read-confirmation")
	}
}

// onReadyToRead: C06. The index returned for a read context is at least the
// largest commit index known to any replica when the request was issued.
func (s *sim) onReadyToRead(r *simReplica, rr pb.ReadyToRead) {
	op, ok := r.pendingReads[rr.SystemCtx]
	if !ok {
		return
	}
	if rr.Index < op.gIssue {
		s.fail("stale-read-index", "replica %d: read ctx %d issued when commit index %d was known, released with index %d",
			r.id, rr.SystemCtx.Low, op.gIssue, rr.Index)
	}
	r.readyReads = append(r.readyReads, readyRead{ctx: rr.SystemCtx, index: rr.Index})
	s.flag("read-index-confirmed")
	if op.rep != 0 && r.raft().state != leader {
		s.flag("read-index-via-nonleader")
	}
	s.afterApply(r)
}

// checkAll is the expensive periodic check: log matching between every pair of
// running replicas and committed entries never replaced.
func (s *sim) checkAll() {
	rs := s.runningReps()
	for _, r := range rs {
		l := r.raft().log
		for i := l.firstIndex(); i <= l.committed && i <= l.lastIndex(); i++ {
			sig, ok := s.committed[i]
			if !ok {
				continue
			}
			t, err := l.term(i)
			if err == nil && t != sig.term {
				s.fail("committed-entry-replaced", "replica %d has term %d at committed index %d (committed term %d)", r.id, t, i, sig.term)
			}
		}
	}
	for a := 0; a < len(rs); a++ {
		for b := a + 1; b < len(rs); b++ {
			la, lb := rs[a].raft().log, rs[b].raft().log
			lo := la.firstIndex()
			if lb.firstIndex() > lo {
				lo = lb.firstIndex()
			}
			hi := la.lastIndex()
			if lb.lastIndex() < hi {
				hi = lb.lastIndex()
			}
			// find the highest index with equal terms; everything below must agree
			agreeFrom := uint64(0)
			for i := hi; i >= lo && i > 0; i-- {
				ta, ea := la.term(i)
				tb, eb := lb.term(i)
				if ea != nil || eb != nil {
					continue
				}
				if ta == tb {
					if agreeFrom == 0 {
						agreeFrom = i
					}
				} else if agreeFrom != 0 {
					s.fail("log-matching-violated", "replicas %d and %d agree on term at %d but differ at %d (%d vs %d)",
						rs[a].id, rs[b].id, agreeFrom, i, ta, tb)
				}
			}
			if agreeFrom != 0 && agreeFrom < hi {
				s.flag("diverged-suffix-seen")
			}
		}
	}
}
