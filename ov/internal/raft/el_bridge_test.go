package raft

// Bridge of the E8 (entrylog, property C19) harness: re-exports the unexported
// entryLog / inMemory / Peer plumbing to the external test package raft_test
// (el_*_test.go), which has to live outside package raft because it imports
// internal/logdb (logdb imports raft).
//
// Nothing here contains logic of its own: every method is a one line forward
// to the code under test.

import (
	"github.com/lni/dragonboat/v4/internal/server"
	pb "github.com/lni/dragonboat/v4/raftpb"
)

// ElTunables are the package level tunables of the raft log (DESIGN.md 1.4).
type ElTunables struct {
	EntrySliceSize        uint64
	MinEntrySliceSize     uint64
	MaxEntriesToApplySize uint64
}

// ElSetTunables installs t and returns the previous values.
func ElSetTunables(t ElTunables) ElTunables {
	old := ElTunables{
		EntrySliceSize:        entrySliceSize,
		MinEntrySliceSize:     minEntrySliceSize,
		MaxEntriesToApplySize: maxEntriesToApplySize,
	}
	entrySliceSize = t.EntrySliceSize
	minEntrySliceSize = t.MinEntrySliceSize
	maxEntriesToApplySize = t.MaxEntriesToApplySize
	return old
}

// ElHandle is a real entryLog driven through a real Peer whose raft object
// only has the fields that Peer.GetUpdate / Peer.Commit / Peer.HasUpdate read.
type ElHandle struct {
	l *entryLog
	p Peer
}

// ElNew mirrors newRaft: rate limiter + newEntryLog over the given ILogDB.
func ElNew(logdb ILogDB, maxInMemLogSize uint64,
	shardID uint64, replicaID uint64) *ElHandle {
	rl := server.NewInMemRateLimiter(maxInMemLogSize)
	l := newEntryLog(logdb, rl)
	r := &raft{
		shardID:   shardID,
		replicaID: replicaID,
		log:       l,
		rl:        rl,
	}
	p := Peer{raft: r}
	p.prevState = r.raftState()
	return &ElHandle{l: l, p: p}
}

// LoadState mirrors raft.loadState (restart path of newRaft).
func (h *ElHandle) LoadState(st pb.State) { h.p.raft.loadState(st) }

// SetTerm sets the raft term reported in Update.State.
func (h *ElHandle) SetTerm(term uint64) { h.p.raft.term = term }

func (h *ElHandle) FirstIndex() uint64          { return h.l.firstIndex() }
func (h *ElHandle) LastIndex() uint64           { return h.l.lastIndex() }
func (h *ElHandle) LastTerm() (uint64, error)   { return h.l.lastTerm() }
func (h *ElHandle) Term(i uint64) (uint64, error) { return h.l.term(i) }
func (h *ElHandle) Committed() uint64           { return h.l.committed }
func (h *ElHandle) Processed() uint64           { return h.l.processed }
func (h *ElHandle) Snapshot() pb.Snapshot       { return h.l.snapshot() }
func (h *ElHandle) EntriesToSave() []pb.Entry   { return h.l.entriesToSave() }
func (h *ElHandle) HasEntriesToApply() bool     { return h.l.hasEntriesToApply() }
func (h *ElHandle) EntriesToApply() ([]pb.Entry, error) {
	return h.l.entriesToApply()
}
func (h *ElHandle) HasMoreEntriesToApply(appliedTo uint64) bool {
	return h.l.hasMoreEntriesToApply(appliedTo)
}
func (h *ElHandle) GetEntries(low uint64, high uint64, maxSize uint64) ([]pb.Entry, error) {
	return h.l.getEntries(low, high, maxSize)
}
func (h *ElHandle) Entries(start uint64, maxSize uint64) ([]pb.Entry, error) {
	return h.l.entries(start, maxSize)
}
func (h *ElHandle) GetCommittedEntries(low uint64, high uint64, maxSize uint64) ([]pb.Entry, error) {
	return h.l.getCommittedEntries(low, high, maxSize)
}
func (h *ElHandle) GetUncommittedEntries() []pb.Entry { return h.l.getUncommittedEntries() }
func (h *ElHandle) MatchTerm(i uint64, t uint64) (bool, error) {
	return h.l.matchTerm(i, t)
}
func (h *ElHandle) UpToDate(i uint64, t uint64) (bool, error) { return h.l.upToDate(i, t) }
func (h *ElHandle) TryAppend(index uint64, ents []pb.Entry) (bool, error) {
	return h.l.tryAppend(index, ents)
}
func (h *ElHandle) Append(ents []pb.Entry)  { h.l.append(ents) }
func (h *ElHandle) CommitTo(i uint64)       { h.l.commitTo(i) }
func (h *ElHandle) TryCommit(i uint64, t uint64) (bool, error) {
	return h.l.tryCommit(i, t)
}
func (h *ElHandle) Restore(ss pb.Snapshot) { h.l.restore(ss) }

// Peer level API, exactly what node.go calls.
func (h *ElHandle) HasUpdate(moreToApply bool) bool { return h.p.HasUpdate(moreToApply) }
func (h *ElHandle) GetUpdate(moreToApply bool, lastApplied uint64) (pb.Update, error) {
	return h.p.GetUpdate(moreToApply, lastApplied)
}
func (h *ElHandle) Commit(ud pb.Update)             { h.p.Commit(ud) }
func (h *ElHandle) NotifyRaftLastApplied(i uint64)  { h.p.NotifyRaftLastApplied(i) }
func (h *ElHandle) HasEntryToApply() bool           { return h.p.HasEntryToApply() }

// raft.tick() / raft.quiescedTick() effects on the log.
func (h *ElHandle) TryResize() { h.l.inmem.tryResize() }
func (h *ElHandle) Resize()    { h.l.inmem.resize() }

// diagnostics (used for class labels only, never for a verdict)
func (h *ElHandle) InMemShrunk() bool       { return h.l.inmem.shrunk }
func (h *ElHandle) InMemMarker() uint64     { return h.l.inmem.markerIndex }
func (h *ElHandle) InMemSavedTo() uint64    { return h.l.inmem.savedTo }
func (h *ElHandle) InMemLen() int           { return len(h.l.inmem.entries) }
func (h *ElHandle) InMemCap() int           { return cap(h.l.inmem.entries) }
func (h *ElHandle) HasPendingSnapshot() bool { return h.l.inmem.snapshot != nil }
