// E1 raftsim: deterministic multi-replica simulator around the real raft core.
// See /verif/DESIGN.md section 2 (E1). The harness owns network, clock, disk and
// the apply loop; every schedule is a generated value. Overlay-only file.
package raft

import (
	"bytes"
	"fmt"
	"hash/fnv"
	"sort"
	"strings"

	"github.com/lni/dragonboat/v4/config"
	"github.com/lni/dragonboat/v4/internal/server"
	"github.com/lni/dragonboat/v4/logger"
	pb "github.com/lni/dragonboat/v4/raftpb"
)

func init() {
	logger.GetLogger("raft").SetLevel(logger.CRITICAL)
	logger.GetLogger("raftpb").SetLevel(logger.CRITICAL)
}

// ---------------------------------------------------------------------------
// membership (harness side copy of the public membership rules)
// ---------------------------------------------------------------------------

type simMembership struct {
	Addresses  map[uint64]string
	NonVotings map[uint64]string
	Witnesses  map[uint64]string
	Removed    map[uint64]bool
	CCID       uint64
}

func newSimMembership() simMembership {
	return simMembership{
		Addresses:  map[uint64]string{},
		NonVotings: map[uint64]string{},
		Witnesses:  map[uint64]string{},
		Removed:    map[uint64]bool{},
	}
}

func (m simMembership) clone() simMembership {
	n := newSimMembership()
	for k, v := range m.Addresses {
		n.Addresses[k] = v
	}
	for k, v := range m.NonVotings {
		n.NonVotings[k] = v
	}
	for k, v := range m.Witnesses {
		n.Witnesses[k] = v
	}
	for k, v := range m.Removed {
		n.Removed[k] = v
	}
	n.CCID = m.CCID
	return n
}

func (m simMembership) toPB() pb.Membership {
	c := m.clone()
	return pb.Membership{
		ConfigChangeId: c.CCID,
		Addresses:      c.Addresses,
		NonVotings:     c.NonVotings,
		Witnesses:      c.Witnesses,
		Removed:        c.Removed,
	}
}

func simMembershipFromPB(p pb.Membership) simMembership {
	n := newSimMembership()
	for k, v := range p.Addresses {
		n.Addresses[k] = v
	}
	for k, v := range p.NonVotings {
		n.NonVotings[k] = v
	}
	for k, v := range p.Witnesses {
		n.Witnesses[k] = v
	}
	for k, v := range p.Removed {
		n.Removed[k] = v
	}
	n.CCID = p.ConfigChangeId
	return n
}

func sortedKeys(m map[uint64]string) []uint64 {
	r := make([]uint64, 0, len(m))
	for k := range m {
		r = append(r, k)
	}
	sort.Slice(r, func(i, j int) bool { return r[i] < r[j] })
	return r
}

func (m simMembership) String() string {
	var sb strings.Builder
	fmt.Fprintf(&sb, "cc%d V%v N%v W%v R[", m.CCID, sortedKeys(m.Addresses),
		sortedKeys(m.NonVotings), sortedKeys(m.Witnesses))
	rm := make([]uint64, 0)
	for k := range m.Removed {
		rm = append(rm, k)
	}
	sort.Slice(rm, func(i, j int) bool { return rm[i] < rm[j] })
	fmt.Fprintf(&sb, "%v]", rm)
	return sb.String()
}

func (m simMembership) voting() map[uint64]bool {
	r := map[uint64]bool{}
	for k := range m.Addresses {
		r[k] = true
	}
	for k := range m.Witnesses {
		r[k] = true
	}
	return r
}

func (m simMembership) addrInUse(addr string) bool {
	for _, a := range m.Addresses {
		if a == addr {
			return true
		}
	}
	for _, a := range m.NonVotings {
		if a == addr {
			return true
		}
	}
	for _, a := range m.Witnesses {
		if a == addr {
			return true
		}
	}
	return false
}

// handle applies the documented membership rules. It returns whether the change
// was accepted. (Written from the public rules: removed ids never return, last
// voter cannot be removed, kind changes only non-voting -> voting, addresses are
// unique, ordered mode requires the current config change id.)
func (m *simMembership) handle(cc pb.ConfigChange, index uint64, ordered bool) bool {
	if ordered && !cc.Initialize && cc.ConfigChangeId != m.CCID {
		return false
	}
	id := cc.ReplicaID
	_, isV := m.Addresses[id]
	nvAddr, isN := m.NonVotings[id]
	_, isW := m.Witnesses[id]
	switch cc.Type {
	case pb.AddNode, pb.AddNonVoting, pb.AddWitness:
		if m.Removed[id] {
			return false
		}
	}
	switch cc.Type {
	case pb.AddNode:
		if isV || isW {
			return false
		}
		if isN {
			if nvAddr != cc.Address {
				return false
			}
			delete(m.NonVotings, id)
			m.Addresses[id] = cc.Address
			m.CCID = index
			return true
		}
		if m.addrInUse(cc.Address) {
			return false
		}
		m.Addresses[id] = cc.Address
	case pb.AddNonVoting:
		if isV || isN || isW || m.addrInUse(cc.Address) {
			return false
		}
		m.NonVotings[id] = cc.Address
	case pb.AddWitness:
		if isV || isN || isW || m.addrInUse(cc.Address) {
			return false
		}
		m.Witnesses[id] = cc.Address
	case pb.RemoveNode:
		if isV && len(m.Addresses) == 1 {
			return false
		}
		delete(m.Addresses, id)
		delete(m.NonVotings, id)
		delete(m.Witnesses, id)
		m.Removed[id] = true
	default:
		panic("unknown cc type")
	}
	m.CCID = index
	return true
}

// ---------------------------------------------------------------------------
// durable store + log reader view
// ---------------------------------------------------------------------------

type appSnap struct {
	kv    map[string]string
	hash  uint64
	mem   simMembership
	index uint64
	term  uint64
}

// simDisk is what survives a crash of a replica.
type simDisk struct {
	state pb.State
	ents  []pb.Entry // contiguous
	snap  pb.Snapshot
	snaps map[uint64]*appSnap
}

func (d *simDisk) first() uint64 {
	if len(d.ents) == 0 {
		return 0
	}
	return d.ents[0].Index
}

func (d *simDisk) last() uint64 {
	if len(d.ents) == 0 {
		return 0
	}
	return d.ents[len(d.ents)-1].Index
}

func (d *simDisk) get(index uint64) (pb.Entry, bool) {
	if len(d.ents) == 0 || index < d.first() || index > d.last() {
		return pb.Entry{}, false
	}
	return d.ents[index-d.first()], true
}

// save has SaveRaftState semantics. It returns a non-empty string describing a
// problem when the update cannot be a legal save (gap in the log).
func (d *simDisk) save(ud pb.Update) string {
	if !pb.IsEmptyState(ud.State) {
		d.state = ud.State
	}
	if !pb.IsEmptySnapshot(ud.Snapshot) {
		// restore type snapshot: the logical log restarts after it
		if ud.Snapshot.Index > d.snap.Index {
			d.snap = ud.Snapshot
		}
		d.ents = nil
	}
	if len(ud.EntriesToSave) > 0 {
		ents := ud.EntriesToSave
		for i := 1; i < len(ents); i++ {
			if ents[i].Index != ents[i-1].Index+1 {
				return fmt.Sprintf("EntriesToSave not contiguous at %d", ents[i].Index)
			}
		}
		fi := ents[0].Index
		if len(d.ents) == 0 {
			d.ents = append([]pb.Entry{}, ents...)
		} else {
			if fi > d.last()+1 {
				return fmt.Sprintf("gap in persisted log: last %d, first to save %d", d.last(), fi)
			}
			if fi < d.first() {
				// overwriting below the first durable entry: keep what is given
				d.ents = append([]pb.Entry{}, ents...)
			} else {
				d.ents = append(append([]pb.Entry{}, d.ents[:fi-d.first()]...), ents...)
			}
		}
	}
	return ""
}

func (d *simDisk) removeEntriesTo(index uint64) {
	if len(d.ents) == 0 || index < d.first() {
		return
	}
	if index >= d.last() {
		// keep nothing below/at index; the log store keeps the range bookkeeping
		// through the snapshot, which is what the reader uses on restart
		d.ents = nil
		return
	}
	d.ents = append([]pb.Entry{}, d.ents[index-d.first()+1:]...)
}

// simReader mirrors logdb.LogReader (the raft.ILogDB the core runs on) over simDisk.
type simReader struct {
	disk        *simDisk
	snapshot    pb.Snapshot
	state       pb.State
	markerIndex uint64
	markerTerm  uint64
	length      uint64
}

var _ ILogDB = (*simReader)(nil)

func newSimReader(d *simDisk) *simReader {
	return &simReader{disk: d, length: 1}
}

func (lr *simReader) firstIndex() uint64 { return lr.markerIndex + 1 }
func (lr *simReader) lastIndex() uint64  { return lr.markerIndex + lr.length - 1 }

func (lr *simReader) GetRange() (uint64, uint64) { return lr.firstIndex(), lr.lastIndex() }

func (lr *simReader) NodeState() (pb.State, pb.Membership) {
	return lr.state, lr.snapshot.Membership
}
func (lr *simReader) SetState(s pb.State) { lr.state = s }

func (lr *simReader) setSnapshot(ss pb.Snapshot) error {
	if lr.snapshot.Index >= ss.Index {
		return ErrSnapshotOutOfDate
	}
	lr.snapshot = ss
	return nil
}

func (lr *simReader) CreateSnapshot(ss pb.Snapshot) error { return lr.setSnapshot(ss) }

func (lr *simReader) ApplySnapshot(ss pb.Snapshot) error {
	if err := lr.setSnapshot(ss); err != nil {
		return err
	}
	lr.markerIndex = ss.Index
	lr.markerTerm = ss.Term
	lr.length = 1
	return nil
}

func (lr *simReader) Snapshot() pb.Snapshot { return lr.snapshot }

func (lr *simReader) entries(low, high, maxSize uint64) ([]pb.Entry, uint64, error) {
	if low > high {
		return nil, 0, fmt.Errorf("high (%d) < low (%d)", high, low)
	}
	if low <= lr.markerIndex {
		return nil, 0, ErrCompacted
	}
	if high > lr.lastIndex()+1 {
		return nil, 0, ErrUnavailable
	}
	var ents []pb.Entry
	size := uint64(0)
	for i := low; i < high; i++ {
		e, ok := lr.disk.get(i)
		if !ok {
			break
		}
		ents = append(ents, e)
		size += uint64(e.SizeUpperLimit())
		if size > maxSize {
			break
		}
	}
	if uint64(len(ents)) == high-low || size > maxSize {
		return ents, size, nil
	}
	if len(ents) > 0 {
		return nil, 0, fmt.Errorf("gap found between [%d:%d) at %d", low, high, ents[len(ents)-1].Index+1)
	}
	return nil, 0, ErrUnavailable
}

func (lr *simReader) Entries(low, high, maxSize uint64) ([]pb.Entry, error) {
	ents, size, err := lr.entries(low, high, maxSize)
	if err != nil {
		return nil, err
	}
	if maxSize > 0 && size > maxSize && len(ents) > 1 {
		return ents[:len(ents)-1], nil
	} else if maxSize == 0 && size > maxSize && len(ents) > 1 {
		return ents[:1], nil
	}
	return ents, nil
}

func (lr *simReader) Term(index uint64) (uint64, error) {
	if index == lr.markerIndex {
		return lr.markerTerm, nil
	}
	ents, _, err := lr.entries(index, index+1, 0)
	if err != nil {
		return 0, err
	}
	if len(ents) == 0 {
		return 0, nil
	}
	return ents[0].Term, nil
}

func (lr *simReader) Append(entries []pb.Entry) error {
	if len(entries) == 0 {
		return nil
	}
	lr.SetRange(entries[0].Index, uint64(len(entries)))
	return nil
}

func (lr *simReader) SetRange(firstIndex uint64, length uint64) {
	if length == 0 {
		return
	}
	first := lr.firstIndex()
	last := firstIndex + length - 1
	if last < first {
		return
	}
	if first > firstIndex {
		cut := first - firstIndex
		firstIndex = first
		length -= cut
	}
	offset := firstIndex - lr.markerIndex
	switch {
	case lr.length > offset:
		lr.length = offset + length
	case lr.length == offset:
		lr.length += length
	default:
		panic(fmt.Sprintf("simReader: gap in log entries, marker %d, len %d, first %d, len %d",
			lr.markerIndex, lr.length, firstIndex, length))
	}
}

func (lr *simReader) Compact(index uint64) error {
	if index < lr.markerIndex {
		return ErrCompacted
	}
	if index > lr.lastIndex() {
		return ErrUnavailable
	}
	term, err := lr.Term(index)
	if err != nil {
		return err
	}
	i := index - lr.markerIndex
	lr.length -= i
	lr.markerIndex = index
	lr.markerTerm = term
	return nil
}

// ---------------------------------------------------------------------------
// replicas
// ---------------------------------------------------------------------------

type simKind int

const (
	kVoter simKind = iota
	kNonVoting
	kWitness
)

func (k simKind) String() string { return [...]string{"voter", "nonvoting", "witness"}[k] }

type simTask struct {
	ents    []pb.Entry
	recover bool
	ss      pb.Snapshot
}

type simEvents struct {
	leaderUpdates []server.LeaderInfo
	campaigns     int
}

func (e *simEvents) LeaderUpdated(info server.LeaderInfo) {
	e.leaderUpdates = append(e.leaderUpdates, info)
}
func (e *simEvents) CampaignLaunched(info server.CampaignInfo)     { e.campaigns++ }
func (e *simEvents) CampaignSkipped(info server.CampaignInfo)      {}
func (e *simEvents) SnapshotRejected(info server.SnapshotInfo)     {}
func (e *simEvents) ReplicationRejected(info server.ReplicationInfo) {}
func (e *simEvents) ProposalDropped(info server.ProposalInfo)      {}
func (e *simEvents) ReadIndexDropped(info server.ReadIndexInfo)    {}

type simOp struct {
	id      int
	write   bool
	key     string
	val     string // written value, or value read
	rep     uint64
	inc     int
	invoke  int
	ret     int // 0 = pending
	outcome string
	entKey  uint64
	ctx     pb.SystemCtx
	gIssue  uint64 // global max commit index at issue time (reads)
}

type readyRead struct {
	ctx   pb.SystemCtx
	index uint64
}

type simReplica struct {
	id       uint64
	origKind simKind
	kind     simKind // current kind (flag in config.Config; non-voting becomes voter by promotion)
	initial bool
	started bool
	up      bool
	removed bool // applied its own removal: node stopped for good
	// lingering: applied its own removal under raftMu while a step worker had already
	// passed the node.stopped() test (engine.processSteps): one more step, with the
	// messages already queued, runs before the node is gone
	lingering     bool
	lingered      bool
	termAtRemoval uint64
	cfg     config.Config
	disk    *simDisk
	reader  *simReader
	peer    Peer
	ev      *simEvents
	inc     int

	// volatile state machine side
	applied     uint64
	appliedTerm uint64
	kv          map[string]string
	hash        uint64
	mem         simMembership
	applyQ      []simTask
	pushedIndex uint64
	ssIndex     uint64 // index of the most recent snapshot known to the node (n.ss.getIndex())
	compactTo   uint64 // pending log compaction target

	inStep      bool
	rng         uint64
	holdApply   bool // macro scenarios: the apply worker of this replica is stalled
	stepApplied uint64
	timeoutOff  uint64

	// monitor bookkeeping
	lastCommitted  uint64
	recordedCommit uint64
	lastState      State
	lastTerm      uint64

	pendingProps map[uint64]*simOp
	pendingReads map[pb.SystemCtx]*simOp
	readyReads   []readyRead
}

func (r *simReplica) raft() *raft { return r.peer.raft }

func (r *simReplica) running() bool { return r.started && r.up && !r.removed }

type simMsg struct {
	m pb.Message
	// raw is the message as the core handed it out (its Entries share memory with the
	// core's in-memory log). The real transport serialises a queued message later, on
	// another goroutine; until then what was handed out must not change.
	raw pb.Message
}

type snapStatus struct {
	to     uint64 // leader that sent the snapshot
	about  uint64 // follower
	reject bool
}

type simOpts struct {
	preVote     bool
	checkQuorum bool
	ordered     bool
	electionRTT uint64
	allowDup    bool
}

type sim struct {
	lingerRemoved bool
	unreach       bool // lost messages are reported to their sender as "target unreachable"
	fail    func(sig string, format string, args ...interface{})
	opts    simOpts
	reps    map[uint64]*simReplica
	ids     []uint64
	net     []simMsg
	statusQ []snapStatus
	blocked map[[2]uint64]bool
	clock   int
	nextKey uint64
	nextCtx uint64
	ops     []*simOp
	trace   []string
	tracing bool

	// monitor state
	committed     map[uint64]entSig
	maxCommit     uint64
	appliedSigs   map[uint64]stateSig
	leaders       map[uint64]uint64
	votesCast     map[[2]uint64]uint64
	grants        map[[2]uint64]map[uint64]bool
	ccOutcome     map[uint64]string
	flags         map[string]int
	actionsDone   int
	fairMode      bool
	maxOps        int
	snapRegistry  map[string]*appSnap
	hbAcks        map[[2]uint64]map[uint64]map[uint64]bool // (leader, term) -> ctx -> responders
	everLeaderIDs map[uint64]bool
}

type entSig struct {
	term  uint64
	typ   pb.EntryType
	key   uint64
	cmdH  uint64
	isCC  bool
}

type stateSig struct {
	hash uint64
	mem  string
}

func hashBytes(b []byte) uint64 {
	h := fnv.New64a()
	_, _ = h.Write(b)
	return h.Sum64()
}

func sigOf(e pb.Entry) entSig {
	return entSig{term: e.Term, typ: e.Type, key: e.Key, cmdH: hashBytes(e.Cmd), isCC: e.Type == pb.ConfigChangeEntry}
}

func newSim(opts simOpts, fail func(sig string, format string, args ...interface{})) *sim {
	return &sim{
		fail:          fail,
		opts:          opts,
		reps:          map[uint64]*simReplica{},
		blocked:       map[[2]uint64]bool{},
		committed:     map[uint64]entSig{},
		appliedSigs:   map[uint64]stateSig{},
		leaders:       map[uint64]uint64{},
		votesCast:     map[[2]uint64]uint64{},
		grants:        map[[2]uint64]map[uint64]bool{},
		ccOutcome:     map[uint64]string{},
		flags:         map[string]int{},
		snapRegistry:  map[string]*appSnap{},
		hbAcks:        map[[2]uint64]map[uint64]map[uint64]bool{},
		everLeaderIDs: map[uint64]bool{},
		nextKey:       1000,
		nextCtx:       1,
	}
}

func (s *sim) flag(name string) { s.flags[name]++ }

func (s *sim) tr(format string, args ...interface{}) {
	if s.tracing {
		s.trace = append(s.trace, fmt.Sprintf("%d: ", s.clock)+fmt.Sprintf(format, args...))
	}
}

func simAddr(id uint64) string { return fmt.Sprintf("a%d", id) }

func (s *sim) addReplica(id uint64, kind simKind, initial bool) *simReplica {
	cfg := config.Config{
		ShardID:      1,
		ReplicaID:    id,
		ElectionRTT:  s.opts.electionRTT,
		HeartbeatRTT: 1,
		CheckQuorum:  s.opts.checkQuorum,
		PreVote:      s.opts.preVote,
		IsNonVoting:  kind == kNonVoting,
		IsWitness:    kind == kWitness,
	}
	r := &simReplica{
		id:       id,
		origKind: kind,
		kind:     kind,
		initial: initial,
		cfg:     cfg,
		disk:    &simDisk{snaps: map[uint64]*appSnap{}},
	}
	s.reps[id] = r
	s.ids = append(s.ids, id)
	sort.Slice(s.ids, func(i, j int) bool { return s.ids[i] < s.ids[j] })
	return r
}

func (s *sim) initialAddresses() []PeerAddress {
	var pas []PeerAddress
	for _, id := range s.ids {
		if s.reps[id].initial {
			pas = append(pas, PeerAddress{ReplicaID: id, Address: simAddr(id)})
		}
	}
	return pas
}

// start (re)launches a replica from its durable state only.
func (s *sim) start(r *simReplica) {
	if r.removed {
		return
	}
	r.inc++
	r.reader = newSimReader(r.disk)
	// node.replayLog
	ss := r.disk.snap
	if !pb.IsEmptySnapshot(ss) {
		_ = r.reader.ApplySnapshot(ss)
	}
	newNode := true
	if !pb.IsEmptyState(r.disk.state) || len(r.disk.ents) > 0 || !pb.IsEmptySnapshot(ss) {
		newNode = false
		if !pb.IsEmptyState(r.disk.state) {
			r.reader.SetState(r.disk.state)
		}
		// ReadRaftState(ss.Index): entries after the snapshot index
		first, count := uint64(0), uint64(0)
		for _, e := range r.disk.ents {
			if e.Index > ss.Index {
				if count == 0 {
					first = e.Index
				}
				count++
			}
		}
		if count > 0 {
			r.reader.SetRange(first, count)
		}
	}
	// operator policy for a replica that was added as non-voting: it is restarted
	// with its original flag unless its durable snapshot already lists it as a
	// regular member (replaying its own AddNonVoting entry requires the flag)
	r.kind = r.origKind
	if _, ok := ss.Membership.Addresses[r.id]; ok && r.origKind == kNonVoting {
		r.kind = kVoter
	}
	r.cfg.IsNonVoting = r.kind == kNonVoting
	r.ev = &simEvents{}
	r.applyQ = nil
	r.kv = map[string]string{}
	r.hash = 0
	r.mem = newSimMembership()
	r.applied, r.appliedTerm = 0, 0
	r.pendingProps = map[uint64]*simOp{}
	r.pendingReads = map[pb.SystemCtx]*simOp{}
	r.readyReads = nil
	r.compactTo = 0
	r.inStep = false
	if !pb.IsEmptySnapshot(ss) {
		// initial recover from the latest snapshot
		if r.kind != kWitness {
			c, ok := r.disk.snaps[ss.Index]
			if !ok {
				s.fail("snapshot-content-missing", "replica %d restarts with snapshot record %d but no snapshot content on disk", r.id, ss.Index)
			}
			for k, v := range c.kv {
				r.kv[k] = v
			}
			r.hash = c.hash
		}
		r.mem = simMembershipFromPB(ss.Membership)
		r.applied, r.appliedTerm = ss.Index, ss.Term
	}
	r.pushedIndex = r.applied
	r.ssIndex = ss.Index
	var addrs []PeerAddress
	if r.initial {
		addrs = s.initialAddresses()
	}
	s.safely(r, "launch", func() error {
		r.peer = Launch(r.cfg, r.reader, r.ev, addrs, r.initial, newNode)
		return nil
	})
	r.started, r.up = true, true
	// C04 recovery: the core restarts from exactly what is durable
	if rf := r.raft(); !newNode {
		if rf.term < r.disk.state.Term {
			s.fail("recovered-term-lower", "replica %d restarted with term %d, durable term %d", r.id, rf.term, r.disk.state.Term)
		}
		if rf.term == r.disk.state.Term && rf.vote != r.disk.state.Vote {
			s.fail("recovered-vote-differs", "replica %d restarted with vote %d, durable vote %d (term %d)", r.id, rf.vote, r.disk.state.Vote, rf.term)
		}
		want := r.disk.last()
		if ss.Index > want {
			want = ss.Index
		}
		if rf.log.lastIndex() < want {
			s.fail("acked-entry-lost", "replica %d restarted with last index %d, durable log ends at %d", r.id, rf.log.lastIndex(), want)
		}
		if rf.log.committed < r.disk.state.Commit && r.disk.state.Commit <= want {
			s.fail("acked-entry-lost", "replica %d restarted with commit %d, durable commit %d", r.id, rf.log.committed, r.disk.state.Commit)
		}
	}
	r.lastCommitted = r.raft().log.committed
	r.recordedCommit = 0
	r.lastState = r.raft().state
	r.lastTerm = r.raft().term
	s.fixTimeout(r)
	s.tr("start %d inc %d newNode %v applied %d commit %d", r.id, r.inc, newNode, r.applied, r.lastCommitted)
	s.observe(r)
}

func (s *sim) crash(r *simReplica) {
	if !r.running() {
		return
	}
	r.up = false
	// operations pending on this replica have an unknown outcome
	for _, op := range r.pendingProps {
		op.outcome = "unknown"
	}
	for _, op := range r.pendingReads {
		op.outcome = "lost"
	}
	s.tr("crash %d", r.id)
}

func (s *sim) fixTimeout(r *simReplica) {
	rf := r.raft()
	if s.fairMode {
		// fair phase: a deterministic pseudo-random timeout, re-drawn from a wide range
		// ([T, 5T)) whenever the election timer has just been reset, plays the role of
		// the core's randomisation: in lock step with fixed timeouts a stale candidate
		// whose period divides another candidate's period splits the vote for ever
		if rf.electionTick == 0 {
			r.rng = r.rng*6364136223846793005 + 1442695040888963407 + r.id
			r.timeoutOff = (r.rng >> 33) % (4 * rf.electionTimeout)
		}
		rf.randomizedElectionTimeout = rf.electionTimeout + r.timeoutOff
		return
	}
	rf.randomizedElectionTimeout = rf.electionTimeout + r.timeoutOff%rf.electionTimeout
}

// safely runs f (a call into the code under test) converting panics of the raft
// core into violations with a signature derived from the panic message.
func (s *sim) safely(r *simReplica, what string, f func() error) {
	defer func() {
		if p := recover(); p != nil {
			if v, ok := p.(simViolation); ok {
				panic(v)
			}
			msg := fmt.Sprintf("%v", p)
			s.fail("raft-panic:"+panicSig(msg), "replica %d %s: panic: %s", r.id, what, msg)
		}
	}()
	if err := f(); err != nil {
		s.fail("raft-error:"+what, "replica %d %s returned error %v", r.id, what, err)
	}
}

type simViolation struct{ msg string }

func panicSig(msg string) string {
	// keep the words of the message, drop numbers and ids
	var out []string
	for _, w := range strings.Fields(msg) {
		clean := strings.Map(func(c rune) rune {
			if (c >= 'a' && c <= 'z') || (c >= 'A' && c <= 'Z') {
				return c
			}
			return -1
		}, w)
		if len(clean) >= 3 && clean == strings.Trim(w, ".,:;()[]") {
			out = append(out, clean)
		}
		if len(out) >= 6 {
			break
		}
	}
	return strings.Join(out, "-")
}

// beginStep mirrors node.handleEvents' updateAppliedIndex at the start of a step.
func (s *sim) beginStep(r *simReplica) {
	if !r.inStep {
		r.inStep = true
		r.stepApplied = r.applied
		r.peer.NotifyRaftLastApplied(r.stepApplied)
	}
}

// input delivers one input (message/tick/request) to a running replica.
func (s *sim) input(r *simReplica, what string, f func() error) {
	if !r.running() {
		return
	}
	s.beginStep(r)
	s.safely(r, what, f)
	s.fixTimeout(r)
	s.observe(r)
}

func (s *sim) tick(r *simReplica) {
	s.input(r, "tick", func() error { return r.peer.Tick() })
}

func cloneMsg(m pb.Message) pb.Message {
	if len(m.Entries) > 0 {
		m.Entries = append([]pb.Entry{}, m.Entries...)
	}
	return m
}

func (s *sim) send(r *simReplica, m pb.Message) {
	raw := m
	m = cloneMsg(m)
	s.onSend(r, m)
	if s.blocked[[2]uint64{m.From, m.To}] {
		s.tr("  blocked %s %d->%d", m.Type, m.From, m.To)
		if m.Type == pb.InstallSnapshot {
			s.statusQ = append(s.statusQ, snapStatus{to: m.From, about: m.To, reject: true})
		}
		return
	}
	s.net = append(s.net, simMsg{m: m, raw: raw})
}

// checkNotMutated: C19/C02, entries handed out in a message still queued for sending
// are the entries of the logical log at the time of the hand-out.
func (s *sim) checkNotMutated(sm simMsg) {
	if len(sm.raw.Entries) != len(sm.m.Entries) {
		return
	}
	for i := range sm.m.Entries {
		a, b := sm.raw.Entries[i], sm.m.Entries[i]
		if a.Index != b.Index || a.Term != b.Term || a.Type != b.Type || a.Key != b.Key || a.ClientID != b.ClientID ||
			a.SeriesID != b.SeriesID || !bytes.Equal(a.Cmd, b.Cmd) {
			s.fail("sent-message-mutated", "%s %d->%d queued for sending: entry %d was %d/t%d key %d when handed out, is now %d/t%d key %d",
				sm.m.Type, sm.m.From, sm.m.To, i, b.Index, b.Term, b.Key, a.Index, a.Term, a.Key)
			return
		}
	}
}

// step runs one engine step for a replica (engine.processSteps for one node).
// crashPoint: 0 none, 1 after early replicate send/before persist, 2 after persist
// before the remaining sends, 3 after sends before Commit.
func (s *sim) step(r *simReplica, crashPoint int) {
	if !r.running() {
		return
	}
	s.beginStep(r)
	defer func() { r.inStep = false }()
	if r.lingering {
		// the last step of a replica that applied its own removal
		defer func() {
			r.lingering, r.lingered, r.removed = false, true, true
		}()
	}
	moreToApply := len(r.applyQ) < 4
	p := &r.peer
	var ud pb.Update
	has := false
	s.safely(r, "getupdate", func() error {
		if p.HasUpdate(moreToApply) || r.compactTo > 0 {
			var err error
			ud, err = p.GetUpdate(moreToApply, r.stepApplied)
			has = true
			return err
		}
		return nil
	})
	if !has {
		return
	}
	s.tr("step %d: save %d ents, state %v, snap %d, commit-ents %d, msgs %d fast %v", r.id,
		len(ud.EntriesToSave), ud.State, ud.Snapshot.Index, len(ud.CommittedEntries), len(ud.Messages), ud.FastApply)
	s.checkUpdate(r, ud)
	// sort the outbox by destination (stable): map iteration order inside the
	// core is the only nondeterminism
	msgs := append([]pb.Message{}, ud.Messages...)
	sort.SliceStable(msgs, func(i, j int) bool { return msgs[i].To < msgs[j].To })
	if ud.FastApply {
		s.pushEntries(r, ud)
	}
	// thesis 10.2.1: Replicate messages leave before the update is saved. E1 assumes
	// (and C04/E6 checks on the real engine) that a Replicate advertising a commit
	// index that covers entries still being saved is held back until after the save.
	early := func(m pb.Message) bool {
		if m.Type != pb.Replicate {
			return false
		}
		if len(ud.EntriesToSave) > 0 && m.Commit >= ud.EntriesToSave[0].Index {
			s.flag("replicate-deferred-commit-covers-unsaved")
			return false
		}
		return true
	}
	isEarly := make([]bool, len(msgs))
	for i, m := range msgs {
		isEarly[i] = early(m)
		if isEarly[i] {
			s.send(r, m)
		}
	}
	s.processReads(r, ud)
	if crashPoint == 1 {
		s.flag("crash-before-persist")
		s.crash(r)
		return
	}
	if problem := r.disk.save(ud); problem != "" {
		s.fail("persist-gap", "replica %d: %s", r.id, problem)
	}
	if !pb.IsEmptyState(ud.State) {
		s.recordObservableCommit(r, ud.State.Commit, "commit persisted")
	}
	if crashPoint == 2 {
		s.flag("crash-after-persist")
		s.crash(r)
		return
	}
	if !ud.FastApply {
		if !pb.IsEmptySnapshot(ud.Snapshot) {
			_ = r.reader.ApplySnapshot(ud.Snapshot)
			ss := ud.Snapshot
			if ss.Index < r.pushedIndex || ss.Index < r.ssIndex || ss.Index < ud.LastApplied {
				s.fail("out-of-date-snapshot-pushed", "replica %d: snapshot %d pushed %d ss %d applied %d",
					r.id, ss.Index, r.pushedIndex, r.ssIndex, ud.LastApplied)
			}
			r.applyQ = append(r.applyQ, simTask{recover: true, ss: ss})
			r.ssIndex = ss.Index
			r.pushedIndex = ss.Index
			s.flag("snapshot-restore")
		}
		s.pushEntries(r, ud)
	}
	// processRaftUpdate
	s.safely(r, "reader-append", func() error { return r.reader.Append(ud.EntriesToSave) })
	for i, m := range msgs {
		if !isEarly[i] {
			s.send(r, m)
		}
	}
	if r.compactTo > 0 {
		to := r.compactTo
		r.compactTo = 0
		if err := r.reader.Compact(to); err != nil && err != ErrCompacted {
			s.fail("compact-failed", "replica %d: LogReader.Compact(%d) failed: %v", r.id, to, err)
		}
		r.disk.removeEntriesTo(to)
		s.flag("compaction")
		s.tr("  compacted %d to %d", r.id, to)
	}
	if crashPoint == 3 {
		s.flag("crash-after-send")
		s.crash(r)
		return
	}
	s.safely(r, "commit", func() error { p.Commit(ud); return nil })
	s.fixTimeout(r)
	s.observe(r)
}

func (s *sim) pushEntries(r *simReplica, ud pb.Update) {
	if len(ud.CommittedEntries) == 0 {
		return
	}
	var ents []pb.Entry
	s.safely(r, "entries-to-apply", func() error {
		ents = pb.EntriesToApply(ud.CommittedEntries, r.pushedIndex, true)
		return nil
	})
	if len(ents) > 0 {
		if ents[0].Index != r.pushedIndex+1 {
			s.fail("apply-gap", "replica %d: entries pushed for apply start at %d, pushed index %d", r.id, ents[0].Index, r.pushedIndex)
		}
		for _, e := range ents {
			s.checkCommittedEntry(r, e, "handed out for apply")
		}
		r.applyQ = append(r.applyQ, simTask{ents: append([]pb.Entry{}, ents...)})
		r.pushedIndex = ents[len(ents)-1].Index
	}
}

func (s *sim) processReads(r *simReplica, ud pb.Update) {
	for _, rr := range ud.ReadyToReads {
		s.onReadyToRead(r, rr)
	}
	for _, e := range ud.DroppedEntries {
		if op, ok := r.pendingProps[e.Key]; ok {
			op.outcome = "dropped"
			op.ret = s.clock
			delete(r.pendingProps, e.Key)
			s.flag("proposal-dropped")
		}
	}
	for _, ctx := range ud.DroppedReadIndexes {
		if op, ok := r.pendingReads[ctx]; ok {
			op.outcome = "dropped"
			op.ret = s.clock
			delete(r.pendingReads, ctx)
			s.flag("read-dropped")
		}
	}
}

// deliver hands message k of the network bag to its destination.
func (s *sim) deliver(k int, keep bool) {
	if len(s.net) == 0 {
		return
	}
	k = k % len(s.net)
	sm := s.net[k]
	s.checkNotMutated(sm)
	if !keep {
		s.net = append(s.net[:k:k], s.net[k+1:]...)
	}
	s.deliverMsg(cloneMsg(sm.m))
}

func (s *sim) deliverMsg(m pb.Message) {
	if s.blocked[[2]uint64{m.From, m.To}] {
		// in flight when the link went down
		if m.Type == pb.InstallSnapshot {
			s.statusQ = append(s.statusQ, snapStatus{to: m.From, about: m.To, reject: true})
		}
		s.tr("  lost %s %d->%d (link down)", m.Type, m.From, m.To)
		s.reportUnreachable(m)
		return
	}
	r, ok := s.reps[m.To]
	if !ok || !r.running() {
		if m.Type == pb.InstallSnapshot {
			s.statusQ = append(s.statusQ, snapStatus{to: m.From, about: m.To, reject: true})
		}
		s.tr("  lost %s %d->%d (target not running)", m.Type, m.From, m.To)
		s.reportUnreachable(m)
		return
	}
	s.tr("deliver %s %d->%d t%d idx%d commit%d rej%v ents%d", m.Type, m.From, m.To, m.Term, m.LogIndex, m.Commit, m.Reject, len(m.Entries))
	if m.Type == pb.InstallSnapshot {
		// the chunks were received and stored before raft sees the message
		if !m.Snapshot.Witness {
			if c, ok := s.snapRegistry[m.Snapshot.Filepath]; ok {
				r.disk.snaps[m.Snapshot.Index] = c
			}
		}
		s.statusQ = append(s.statusQ, snapStatus{to: m.From, about: m.To, reject: false})
	}
	if m.Type == pb.Replicate && s.hasPendingRecover(r) {
		// node.handleReceivedMessages drops Replicate while busy recovering
		return
	}
	s.onDeliver(r, m)
	var queue []uint64
	beforeRTR, beforeMsgs := 0, 0
	wasLeader := r.raft().state == leader
	if wasLeader && m.Type == pb.HeartbeatResp {
		for _, c := range r.raft().readIndex.queue {
			queue = append(queue, c.Low)
		}
		beforeRTR, beforeMsgs = len(r.raft().readyToRead), len(r.raft().msgs)
	}
	rtr0, msgs0 := len(r.raft().readyToRead), len(r.raft().msgs)
	s.input(r, "handle-"+m.Type.String(), func() error { return r.peer.Handle(m) })
	if m.Type == pb.ReadIndex {
		s.checkImmediateRelease(r, wasLeader, rtr0, msgs0, fmt.Sprintf("ReadIndex request forwarded by %d", m.From))
	}
	if wasLeader && m.Type == pb.HeartbeatResp && r.running() && r.raft().state == leader {
		// reads released while handling this confirmation: for itself (readyToRead)
		// and for remote requesters (ReadIndexResp)
		rtr := r.raft().readyToRead
		for i := beforeRTR; i < len(rtr); i++ {
			s.checkReadQuorum(r, rtr[i].SystemCtx.Low, queue, "local release")
		}
		msgs := r.raft().msgs
		for i := beforeMsgs; i < len(msgs); i++ {
			if msgs[i].Type == pb.ReadIndexResp {
				s.checkReadQuorum(r, msgs[i].Hint, queue, fmt.Sprintf("ReadIndexResp to %d", msgs[i].To))
			}
		}
	}
}

func (s *sim) hasPendingRecover(r *simReplica) bool {
	for _, t := range r.applyQ {
		if t.recover {
			return true
		}
	}
	return false
}

// reportUnreachable: the transport tells the sender that the target of a message it
// could not deliver is unreachable (NodeHost: failed send -> Unreachable message ->
// Peer.ReportUnreachableNode), when the case's shape says so.
func (s *sim) reportUnreachable(m pb.Message) {
	if !s.unreach || (m.Type != pb.Replicate && m.Type != pb.Heartbeat && m.Type != pb.InstallSnapshot) {
		return
	}
	snd, ok := s.reps[m.From]
	if !ok || !snd.running() {
		return
	}
	s.flag("unreachable-reported")
	s.input(snd, "unreachable", func() error { return snd.peer.ReportUnreachableNode(m.To) })
}

func (s *sim) deliverStatus(k int) {
	if len(s.statusQ) == 0 {
		return
	}
	k = k % len(s.statusQ)
	st := s.statusQ[k]
	s.statusQ = append(s.statusQ[:k:k], s.statusQ[k+1:]...)
	r, ok := s.reps[st.to]
	if !ok {
		return
	}
	s.input(r, "snapshot-status", func() error { return r.peer.ReportSnapshotStatus(st.about, st.reject) })
}

// apply processes up to n tasks of the replica's apply queue.
func (s *sim) apply(r *simReplica, n int) {
	if !r.running() || r.lingering {
		return
	}
	for i := 0; i < n && len(r.applyQ) > 0 && r.running() && !r.lingering; i++ {
		t := r.applyQ[0]
		r.applyQ = r.applyQ[1:]
		if t.recover {
			s.applyRecover(r, t.ss)
		} else {
			for _, e := range t.ents {
				s.applyEntry(r, e)
				if !r.running() || r.lingering {
					break
				}
			}
		}
		s.afterApply(r)
	}
}

func (s *sim) applyRecover(r *simReplica, ss pb.Snapshot) {
	if ss.Index <= r.applied {
		s.fail("recover-older-snapshot", "replica %d recovers snapshot %d at applied %d", r.id, ss.Index, r.applied)
	}
	if r.kind != kWitness {
		c, ok := r.disk.snaps[ss.Index]
		if !ok {
			s.fail("snapshot-content-missing", "replica %d recovers snapshot %d without content", r.id, ss.Index)
		}
		r.kv = map[string]string{}
		for k, v := range c.kv {
			r.kv[k] = v
		}
		r.hash = c.hash
	}
	r.mem = simMembershipFromPB(ss.Membership)
	r.applied, r.appliedTerm = ss.Index, ss.Term
	if _, ok := ss.Membership.Addresses[r.id]; ok && r.kind == kNonVoting {
		// promoted through the snapshot (raft.restoreRemotes turns it into a follower)
		r.kind = kVoter
		r.cfg.IsNonVoting = false
		s.flag("promoted")
	}
	s.tr("apply %d: recovered snapshot %d mem %s", r.id, ss.Index, r.mem)
	// node.RestoreRemotes
	for id := range ss.Membership.Removed {
		if id == r.id {
			r.removed = true
		}
	}
	s.safely(r, "restore-remotes", func() error { return r.peer.RestoreRemotes(ss) })
	s.checkRaftMembership(r, fmt.Sprintf("after restoring snapshot %d", ss.Index))
	s.fixTimeout(r)
	s.checkApplied(r)
	s.observe(r)
	// node.recover: compactLog(DefaultSSRequest, ss.Index)
}

func mixHash(h uint64, e pb.Entry) uint64 {
	f := fnv.New64a()
	var b [8]byte
	put := func(v uint64) {
		for i := 0; i < 8; i++ {
			b[i] = byte(v >> (8 * i))
		}
		_, _ = f.Write(b[:])
	}
	put(h)
	put(e.Index)
	put(e.Term)
	put(uint64(e.Type))
	_, _ = f.Write(e.Cmd)
	return f.Sum64()
}

func (s *sim) applyEntry(r *simReplica, e pb.Entry) {
	if e.Index != r.applied+1 {
		s.fail("apply-gap", "replica %d applies index %d after %d", r.id, e.Index, r.applied)
	}
	if e.Term < r.appliedTerm {
		s.fail("apply-term-regression", "replica %d applies term %d after %d at index %d", r.id, e.Term, r.appliedTerm, e.Index)
	}
	s.checkCommittedEntry(r, e, "apply")
	switch e.Type {
	case pb.ConfigChangeEntry:
		var cc pb.ConfigChange
		pb.MustUnmarshal(&cc, e.Cmd)
		before := r.mem.String()
		accepted := r.mem.handle(cc, e.Index, s.opts.ordered)
		outcome := fmt.Sprintf("%v->%s", accepted, r.mem)
		if !accepted && before != r.mem.String() {
			s.fail("harness-bug", "rejected change modified membership")
		}
		if prev, ok := s.ccOutcome[e.Index]; ok {
			if prev != outcome {
				s.fail("cc-outcome-differs", "config change at index %d: %s on replica %d, %s elsewhere", e.Index, outcome, r.id, prev)
			}
		} else {
			s.ccOutcome[e.Index] = outcome
		}
		s.tr("apply %d: cc idx %d %s id %d accepted %v", r.id, e.Index, cc.Type, cc.ReplicaID, accepted)
		if accepted {
			s.flag("cc-applied")
		} else {
			s.flag("cc-rejected")
		}
		// node.ApplyConfigChange (runs under raftMu, i.e. between steps)
		if accepted {
			s.safely(r, "apply-configchange", func() error { return r.peer.ApplyConfigChange(cc) })
			if r.applied+1 > uint64(len(s.initialAddresses())) || !r.initial {
				s.checkRaftMembership(r, fmt.Sprintf("after applying the config change at %d", e.Index))
			}
			if cc.Type == pb.RemoveNode && cc.ReplicaID == r.id {
				if r.raft().state == leader {
					s.fail("removed-leader-still-leader", "replica %d applied its own removal and is still leader", r.id)
				}
				r.termAtRemoval = r.raft().term
				if s.lingerRemoved {
					r.lingering = true
					s.flag("self-removed-lingering")
				} else {
					r.removed = true
				}
				s.flag("self-removed")
			}
			if cc.Type == pb.AddNode && cc.ReplicaID == r.id && r.kind == kNonVoting {
				r.kind = kVoter
				r.cfg.IsNonVoting = false
				s.flag("promoted")
			}
		} else if r.kind != kWitness {
			s.safely(r, "reject-configchange", func() error { return r.peer.RejectConfigChange() })
		}
		s.fixTimeout(r)
	case pb.ApplicationEntry, pb.EncodedEntry:
		if len(e.Cmd) > 0 {
			kv := strings.SplitN(string(e.Cmd), "=", 2)
			if len(kv) == 2 {
				r.kv[kv[0]] = kv[1]
			}
		}
	case pb.MetadataEntry:
		if r.kind != kWitness {
			s.fail("metadata-entry-on-non-witness", "replica %d (%s) applies a metadata entry at %d", r.id, r.kind, e.Index)
		}
	}
	if r.kind != kWitness {
		r.hash = mixHash(r.hash, e)
	}
	r.applied, r.appliedTerm = e.Index, e.Term
	s.checkApplied(r)
	if op, ok := r.pendingProps[e.Key]; ok && e.Key != 0 && e.Type != pb.ConfigChangeEntry {
		op.outcome = "completed"
		op.ret = s.clock
		delete(r.pendingProps, e.Key)
		s.flag("proposal-completed")
	}
	if r.running() {
		s.observe(r)
	}
}

func (s *sim) afterApply(r *simReplica) {
	// release reads whose index has been applied (request.go: applied >= index)
	var rest []readyRead
	for _, rr := range r.readyReads {
		op, ok := r.pendingReads[rr.ctx]
		if !ok {
			continue
		}
		if r.applied >= rr.index {
			op.val = r.kv[op.key]
			op.outcome = "completed"
			op.ret = s.clock
			delete(r.pendingReads, rr.ctx)
			s.flag("read-completed")
		} else {
			rest = append(rest, rr)
		}
	}
	r.readyReads = rest
}

// snapshot takes a local snapshot at the applied index (node.doSave) and
// schedules log compaction with the given overhead.
func (s *sim) snapshot(r *simReplica, overhead uint64) {
	if !r.running() || r.kind == kWitness || r.applied <= r.ssIndex || r.applied == 0 {
		return
	}
	if s.hasPendingRecover(r) {
		return
	}
	c := &appSnap{kv: map[string]string{}, hash: r.hash, mem: r.mem.clone(), index: r.applied, term: r.appliedTerm}
	for k, v := range r.kv {
		c.kv[k] = v
	}
	key := fmt.Sprintf("%d/%d/%d", r.id, r.inc, r.applied)
	ss := pb.Snapshot{
		Index:      r.applied,
		Term:       r.appliedTerm,
		Membership: r.mem.toPB(),
		Filepath:   key,
		FileSize:   1,
		ShardID:    1,
	}
	s.snapRegistry[key] = c
	r.disk.snaps[ss.Index] = c
	// snapshotter.Commit -> logdb.SaveSnapshots
	if ss.Index > r.disk.snap.Index {
		r.disk.snap = ss
	}
	if err := r.reader.CreateSnapshot(ss); err != nil {
		return
	}
	if ss.Index > overhead {
		r.compactTo = ss.Index - overhead
	}
	r.ssIndex = ss.Index
	s.flag("snapshot-taken")
	s.tr("snapshot %d at %d compactTo %d", r.id, ss.Index, r.compactTo)
}

// ---------------------------------------------------------------------------
// client requests
// ---------------------------------------------------------------------------

func (s *sim) propose(r *simReplica, key string, n int) {
	if !r.running() || r.kind == kWitness {
		return
	}
	if s.maxOps > 0 && len(s.ops)+n > s.maxOps && !s.fairMode {
		return
	}
	var ents []pb.Entry
	for i := 0; i < n; i++ {
		s.nextKey++
		val := fmt.Sprintf("v%d", s.nextKey)
		op := &simOp{id: len(s.ops), write: true, key: key, val: val, rep: r.id, inc: r.inc, invoke: s.clock, entKey: s.nextKey}
		s.ops = append(s.ops, op)
		r.pendingProps[s.nextKey] = op
		ents = append(ents, pb.Entry{Type: pb.ApplicationEntry, Key: s.nextKey, Cmd: []byte(key + "=" + val)})
	}
	s.tr("propose on %d key %s x%d", r.id, key, n)
	s.input(r, "propose", func() error { return r.peer.ProposeEntries(ents) })
}

func (s *sim) readIndex(r *simReplica, key string) {
	if !r.running() || r.kind == kWitness {
		return
	}
	if s.maxOps > 0 && len(s.ops) >= s.maxOps && !s.fairMode {
		return
	}
	s.nextCtx++
	ctx := pb.SystemCtx{Low: s.nextCtx, High: s.nextCtx * 7}
	op := &simOp{id: len(s.ops), key: key, rep: r.id, inc: r.inc, invoke: s.clock, ctx: ctx, gIssue: s.maxCommit}
	s.ops = append(s.ops, op)
	r.pendingReads[ctx] = op
	s.tr("readindex on %d ctx %d G %d", r.id, ctx.Low, op.gIssue)
	beforeRTR, beforeMsgs := len(r.raft().readyToRead), len(r.raft().msgs)
	wasLeader := r.raft().state == leader
	s.input(r, "readindex", func() error { return r.peer.ReadIndex(ctx) })
	s.checkImmediateRelease(r, wasLeader, beforeRTR, beforeMsgs, "local ReadIndex request")
}

// checkImmediateRelease: C06/C18. A read released while the leader handles the
// request itself - no heartbeat round at all - is legitimate only when the leader
// is the only voting member (full members and witnesses) of its applied membership.
func (s *sim) checkImmediateRelease(l *simReplica, wasLeader bool, beforeRTR, beforeMsgs int, how string) {
	if !wasLeader || !l.running() || l.raft().state != leader {
		return
	}
	voting := l.mem.voting()
	if len(voting) <= 1 {
		return
	}
	released := uint64(0)
	if rtr := l.raft().readyToRead; len(rtr) > beforeRTR {
		released = rtr[len(rtr)-1].SystemCtx.Low
	}
	msgs := l.raft().msgs
	for i := beforeMsgs; i < len(msgs) && released == 0; i++ {
		if msgs[i].Type == pb.ReadIndexResp {
			released = msgs[i].Hint
		}
	}
	if released != 0 {
		s.fail("read-confirmed-without-voting-quorum", "leader %d (term %d) released read ctx %d while handling the %s, without any heartbeat confirmation, although its applied membership has %d voting members (%s)",
			l.id, l.raft().term, released, how, len(voting), l.mem)
	}
}

func (s *sim) configChange(r *simReplica, cc pb.ConfigChange) {
	if !r.running() || r.kind == kWitness {
		return
	}
	s.nextKey++
	key := s.nextKey
	s.tr("configchange on %d: %s id %d ccid %d", r.id, cc.Type, cc.ReplicaID, cc.ConfigChangeId)
	s.flag("cc-proposed")
	s.input(r, "propose-cc", func() error { return r.peer.ProposeConfigChange(cc, key) })
}

func (s *sim) transfer(r *simReplica, target uint64) {
	if !r.running() {
		return
	}
	s.flag("leader-transfer")
	s.input(r, "leader-transfer", func() error { return r.peer.RequestLeaderTransfer(target) })
}

// ---------------------------------------------------------------------------
// macro schedule: fair rounds
// ---------------------------------------------------------------------------

func (s *sim) runningReps() []*simReplica {
	var rs []*simReplica
	for _, id := range s.ids {
		if r := s.reps[id]; r.running() {
			rs = append(rs, r)
		}
	}
	return rs
}

// round is one fair round: tick, step, deliver everything deliverable (FIFO),
// report snapshot statuses, apply everything, step again.
func (s *sim) round(tick bool) {
	s.clock++
	if tick {
		for _, r := range s.runningReps() {
			s.tick(r)
		}
	}
	for _, r := range s.runningReps() {
		s.step(r, 0)
	}
	msgs := s.net
	s.net = nil
	for _, sm := range msgs {
		s.checkNotMutated(sm)
		s.deliverMsg(sm.m)
	}
	sts := s.statusQ
	s.statusQ = nil
	for _, st := range sts {
		if r, ok := s.reps[st.to]; ok {
			st := st
			s.input(r, "snapshot-status", func() error { return r.peer.ReportSnapshotStatus(st.about, st.reject) })
		}
	}
	for _, r := range s.runningReps() {
		s.step(r, 0)
	}
	for _, r := range s.runningReps() {
		if !r.holdApply {
			s.apply(r, 1<<20)
		}
	}
	for _, r := range s.runningReps() {
		s.step(r, 0)
	}
}

func (s *sim) leader() *simReplica {
	var best *simReplica
	for _, r := range s.runningReps() {
		if r.raft().state == leader {
			if best == nil || r.raft().term > best.raft().term {
				best = r
			}
		}
	}
	return best
}
