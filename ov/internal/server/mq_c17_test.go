package server

import (
	"fmt"
	"sort"
	"testing"

	"pgregory.net/rapid"

	"github.com/lni/dragonboat/v4/internal/vfhelp"
	pb "github.com/lni/dragonboat/v4/raftpb"
)

// C17 (mechanism "snapshot status reports un-pause a remote parked in the Snapshot
// state"): the per-replica MessageQueue is the only carrier of SnapshotStatus
// reports (delayed records), Unreachable / SnapshotReceived notifications (no-drop
// records) and raft messages. Model-based test: generated sequences of Add /
// MustAdd / AddDelayed / Tick / Get against a reference model written from the
// documented behaviour: every accepted message is returned by exactly one later
// Get; a delayed message only by a Get issued after more than `delay` ticks have
// passed, and by the FIRST such Get; ordinary messages keep their order; nothing is
// returned twice; a full queue refuses ordinary messages (Add returns false).

type mqDelayed struct {
	id  uint64
	due uint64 // returned by the first Get with tick > due
}

func TestVF_C17_MessageQueue(t *testing.T) {
	st := vfhelp.NewStats("TestVF_C17_MessageQueue",
		"model-based: generated Add/MustAdd/AddDelayed/Tick/Get sequences on the real server.MessageQueue against a reference model (exactly-once delivery, delay honoured, "+
			"FIFO for ordinary messages, capacity); non-trivial = two or more delayed records pending at the same time expire out of insertion order; distinct = hash of the operation sequence")
	defer st.Flush()
	rapid.Check(t, func(t *rapid.T) {
		size := uint64(1 + vfhelp.PickN(t, "size", 8))
		lazy := uint64(vfhelp.PickN(t, "lazy", 3))
		q := NewMessageQueue(size, false, lazy, 0)
		var tick uint64
		var nextID uint64
		var ordinary []uint64 // model: ordinary messages accepted since the last Get, in order
		var nodrop []uint64
		var pending []mqDelayed
		delivered := map[uint64]int{}
		outOfOrder := false
		n := 5 + vfhelp.PickN(t, "nops", 60)
		var trace []string
		canon := fmt.Sprintf("size=%d lazy=%d:", size, lazy)
		mk := func(typ pb.MessageType) pb.Message {
			nextID++
			return pb.Message{Type: typ, LogIndex: nextID, From: 2, To: 1}
		}
		for i := 0; i < n; i++ {
			switch op := vfhelp.PickN(t, "op", 10); {
			case op <= 2:
				m := mk(pb.Heartbeat)
				added, stopped := q.Add(m)
				trace = append(trace, fmt.Sprintf("Add(%d)=%v", m.LogIndex, added))
				canon += "a"
				if stopped {
					vfhelp.Fail(t, "mq-reports-stopped", "Add reports a stopped queue; %v", trace)
				}
				if uint64(len(ordinary)) < size {
					if !added {
						vfhelp.Fail(t, "mq-refused-with-room", "Add refused message %d with %d of %d slots used; %v", m.LogIndex, len(ordinary), size, trace)
					}
					ordinary = append(ordinary, m.LogIndex)
				} else if added {
					vfhelp.Fail(t, "mq-accepted-when-full", "Add accepted message %d with the queue full (%d); %v", m.LogIndex, size, trace)
				}
			case op == 3:
				m := mk(pb.Unreachable)
				if !q.MustAdd(m) {
					vfhelp.Fail(t, "mq-mustadd-refused", "MustAdd refused %d; %v", m.LogIndex, trace)
				}
				nodrop = append(nodrop, m.LogIndex)
				trace = append(trace, fmt.Sprintf("MustAdd(%d)", m.LogIndex))
				canon += "m"
			case op <= 6:
				m := mk(pb.SnapshotStatus)
				delay := uint64(vfhelp.PickN(t, "delay", 12))
				if !q.AddDelayed(m, delay) {
					vfhelp.Fail(t, "mq-adddelayed-refused", "AddDelayed refused %d; %v", m.LogIndex, trace)
				}
				for _, p := range pending {
					if p.due > tick+delay {
						outOfOrder = true
					}
				}
				pending = append(pending, mqDelayed{m.LogIndex, tick + delay})
				trace = append(trace, fmt.Sprintf("AddDelayed(%d,+%d)", m.LogIndex, delay))
				canon += fmt.Sprintf("d%d", delay)
			case op <= 8:
				k := 1 + vfhelp.PickN(t, "ticks", 6)
				for j := 0; j < k; j++ {
					q.Tick()
					tick++
				}
				trace = append(trace, fmt.Sprintf("Tick x%d (now %d)", k, tick))
				canon += fmt.Sprintf("t%d", k)
			default:
				got := q.Get()
				var ids []uint64
				for _, m := range got {
					ids = append(ids, m.LogIndex)
					delivered[m.LogIndex]++
					if delivered[m.LogIndex] > 1 {
						vfhelp.Fail(t, "mq-message-delivered-twice", "message %d returned by Get a second time; %v", m.LogIndex, trace)
					}
				}
				trace = append(trace, fmt.Sprintf("Get=%v", ids))
				canon += "g"
				// model: nodrop, then the delayed records that are due, then the ordinary ones
				var want []uint64
				want = append(want, nodrop...)
				nodrop = nil
				var keep []mqDelayed
				var due []uint64
				for _, p := range pending {
					if p.due < tick {
						due = append(due, p.id)
					} else {
						keep = append(keep, p)
					}
				}
				pending = keep
				want = append(want, due...)
				want = append(want, ordinary...)
				ordinary = nil
				if fmt.Sprint(ids) != fmt.Sprint(want) {
					// name the failure by what went wrong
					gs, ws := append([]uint64{}, ids...), append([]uint64{}, want...)
					sort.Slice(gs, func(i, j int) bool { return gs[i] < gs[j] })
					sort.Slice(ws, func(i, j int) bool { return ws[i] < ws[j] })
					sig := "mq-wrong-order"
					if fmt.Sprint(gs) != fmt.Sprint(ws) {
						sig = "mq-get-differs-from-model"
					}
					vfhelp.Fail(t, sig, "Get returned %v, model %v (tick %d, still pending %v); %v", ids, want, tick, pending, trace)
				}
			}
		}
		// drain: far in the future everything accepted must have been delivered exactly once
		for j := 0; j < 20; j++ {
			q.Tick()
			tick++
		}
		for _, m := range q.Get() {
			delivered[m.LogIndex]++
		}
		for _, m := range q.Get() {
			delivered[m.LogIndex]++
		}
		for _, p := range pending {
			if delivered[p.id] != 1 {
				vfhelp.Fail(t, "mq-delayed-message-lost", "delayed message %d (due after tick %d) was returned %d times after the queue was drained at tick %d; %v", p.id, p.due, delivered[p.id], tick, trace)
			}
		}
		for _, id := range append(append([]uint64{}, ordinary...), nodrop...) {
			if delivered[id] != 1 {
				vfhelp.Fail(t, "mq-message-lost", "message %d was returned %d times after drain; %v", id, delivered[id], trace)
			}
		}
		labels := []string{}
		if outOfOrder {
			labels = append(labels, "delayed-records-expire-out-of-order")
		}
		st.Case([]byte(canon), outOfOrder, labels...)
		if outOfOrder && st.WantSample() {
			st.Sample(map[string]interface{}{"size": size, "ops": trace})
		}
	})
}
