#!/bin/sh
# Offline setup: warm the Go build cache for the harness packages. Nothing is fetched.
set -e
cd "$(dirname "$0")"
export GOFLAGS=-mod=mod GOPROXY=off GOSUMDB=off GOTOOLCHAIN=local
mkdir -p build work evidence replays
python3 - <<'PY'
import sys, os
sys.path.insert(0, os.getcwd())
import importlib.util, importlib.machinery
loader = importlib.machinery.SourceFileLoader("vfcheck", os.path.join(os.getcwd(), "check"))
spec = importlib.util.spec_from_loader("vfcheck", loader)
m = importlib.util.module_from_spec(spec); loader.exec_module(m)
from vfconf import PROPS
ok = True
for pid in sorted(PROPS):
    m.prepare_build(pid)
    seen = set()
    for u in PROPS[pid]["units"]:
        key = (u["pkg"], u.get("race", False))
        if key in seen: continue
        seen.add(key)
        if m.build_binary(*key) is None:
            ok = False
sys.exit(0 if ok else 1)
PY
