#!/usr/bin/env python3
"""
tools/seedeval.py <ID> [--props C02,C03] [--tier quick]

Confirms a seeded change produced by an independent sub-agent (deliverables in
/tmp/seed-<ID>-out) in a scratch worktree and runs the /verif checks against it:
  1. demo passes on the unmodified tree, 2. patch applies and builds, 3. demo fails with
  the patch, 4. the existing tests of the touched packages still pass, 5. ./check results.
Keeps the change as /verif/seeded/<ID>/ with the verification record.
"""
import json
import os
import shutil
import subprocess
import sys
import time

VERIF = os.path.dirname(os.path.dirname(os.path.abspath(__file__)))
ENV = dict(os.environ, GOFLAGS="-mod=mod", GOPROXY="off", GOSUMDB="off", GOTOOLCHAIN="local")


def sh(cmd, cwd=None, timeout=3600, env=None):
    p = subprocess.run(cmd, shell=True, cwd=cwd, env=env or ENV, stdout=subprocess.PIPE, stderr=subprocess.STDOUT, text=True, timeout=timeout)
    return p.returncode, p.stdout


def main():
    sid = sys.argv[1]
    props = None
    tier = "quick"
    if "--props" in sys.argv:
        props = sys.argv[sys.argv.index("--props") + 1].split(",")
    if "--tier" in sys.argv:
        tier = sys.argv[sys.argv.index("--tier") + 1]
    src = "/tmp/seed-%s-out" % sid
    if "--src" in sys.argv:
        src = sys.argv[sys.argv.index("--src") + 1]
    name = sid
    if "--name" in sys.argv:
        name = sys.argv[sys.argv.index("--name") + 1]
    meta = json.load(open(os.path.join(src, "meta.json")))
    prop = meta.get("property", sid)
    if props is None:
        # re-evaluation of a kept seed: the same properties as last time
        props = sorted((meta.get("verification", {}).get("checks") or {}).keys()) or [prop]
        if prop in props:
            props.remove(prop)
        props.insert(0, prop)
    demo = meta["demo"]
    pkgdir = demo["package_dir"].strip("./") or "."
    demofile = demo["file"]
    wt = "/tmp/sv-%s" % name
    src = os.path.realpath(src)
    sh("git -C /repo worktree remove --force %s" % wt)
    rc, out = sh("git -C /repo worktree add %s HEAD" % wt)
    assert rc == 0, out
    rec = {"seed": name, "property": prop, "verified_at": time.strftime("%Y-%m-%d %H:%M:%S"), "steps": {}}
    try:
        demodst = os.path.join(wt, pkgdir, demofile)
        shutil.copy(os.path.join(src, demofile), demodst)
        # the demonstration tests are named TestSeed<ID>...: build the command ourselves
        # (the agents' "run" strings contain prose and their own wrappers)
        run = "go test -vet=off -count=1 -run 'Seed' %s" % ("." if pkgdir == "." else "./%s/" % pkgdir)
        runcmd = "unshare -n -- bash -c 'ip link set lo up 2>/dev/null; %s'" % run.replace("'", "'\\''")
        rc, out = sh(runcmd, cwd=wt)
        rec["steps"]["demo_passes_without_change"] = rc == 0
        rec["demo_cmd"] = run
        if rc != 0:
            rec["demo_without_change_tail"] = out[-1500:]
        rc, out = sh("git apply %s" % os.path.join(src, "patch.diff"), cwd=wt)
        rec["steps"]["patch_applies"] = rc == 0
        rc, out = sh("go build . ./internal/... ./raftpb/... ./tools/... ./client/... ./config/... ./plugin/...", cwd=wt)
        rec["steps"]["builds"] = rc == 0
        rc, out = sh(runcmd, cwd=wt)
        rec["steps"]["demo_fails_with_change"] = rc != 0
        rec["demo_with_change_tail"] = out[-1200:]
        os.remove(demodst)
        rc, files = sh("git diff --name-only", cwd=wt)
        touched = sorted(set(os.path.dirname(f) or "." for f in files.split() if f.endswith(".go")))
        rec["files_changed"] = files.split()
        pk = " ".join("./" + d + "/" if d != "." else "." for d in touched)
        # always include the core packages
        extra = "./internal/raft/ ./internal/rsm/ ./internal/logdb/ ./internal/tan/ ./internal/transport/ ./raftpb/"
        allp = " ".join(sorted(set((pk + " " + extra).split())))
        oldver = meta.get("verification", {})
        if "--reuse-existing" in sys.argv and oldver.get("steps", {}).get("existing_tests_pass"):
            # re-evaluation of a kept seed: the existing tests were run when the seed was first confirmed
            rc, out = 0, ""
            rec["existing_tests_reused_from"] = oldver.get("verified_at")
        else:
            rc, out = sh("unshare -n -- bash -c 'ip link set lo up 2>/dev/null; go test -p 1 -vet=off -count=1 -timeout 40m %s'" % allp, cwd=wt)
        rec["steps"]["existing_tests_pass"] = rc == 0
        rec["existing_tests_cmd"] = "go test -vet=off -count=1 " + allp
        if rc != 0:
            rec["existing_tests_tail"] = "\n".join(l for l in out.splitlines() if l.startswith(("FAIL", "--- FAIL", "ok", "panic")))[-2000:]
        checks = {}
        for p in props:
            env = dict(ENV, VF_REPO=wt, VF_TAG="seed-" + name)
            t0 = time.time()
            rc, out = sh("./check %s %s" % (p, tier), cwd=VERIF, env=env, timeout=7200)
            sigs = sorted(set(l.split("VFSIG[")[1].split("]")[0] for l in out.splitlines() if "VFSIG[" in l))
            viol = [l for l in out.splitlines() if l.startswith("VIOLATION")]
            # (the failing unit's output tail may be cut before its VFSIG line: the replay file name carries the signature too)
            import re
            for l in viol:
                m = re.search(r"replay=\S*/C\d\d-(.+)-\d+\.json", l)
                if m:
                    sigs = sorted(set(sigs) | {m.group(1)})
            checks[p] = {"tier": tier, "exit": rc, "signatures": sigs, "violation_lines": len(viol), "wall_s": round(time.time() - t0, 1)}
            print("CHECK", name, p, tier, "rc=%d" % rc, sigs, flush=True)
        rec["checks"] = checks
    finally:
        sh("git -C /repo worktree remove --force %s" % wt)
        sh("rm -rf %s/build/seed-%s %s/work/seed-%s" % (VERIF, name, VERIF, name))
    dst = os.path.join(VERIF, "seeded", name)
    os.makedirs(dst, exist_ok=True)
    if os.path.realpath(src) != os.path.realpath(dst):
        shutil.copy(os.path.join(src, "patch.diff"), dst)
        shutil.copy(os.path.join(src, demofile), dst)
    meta["verification"] = rec
    prev = os.path.join(dst, "meta.json")
    if os.path.exists(prev) and "--fresh" not in sys.argv:
        old = json.load(open(prev))
        oldchecks = old.get("verification", {}).get("checks", {})
        oldchecks.update(rec.get("checks", {}))
        rec["checks"] = oldchecks
    json.dump(meta, open(prev, "w"), indent=1)
    print(json.dumps(rec["steps"]), flush=True)


if __name__ == "__main__":
    main()
