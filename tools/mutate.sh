#!/bin/bash
# usage: mutate.sh <name> <file> <python-replace-old> <python-replace-new> <prop...>
# applies a textual mutation in a scratch worktree and runs quick checks against it
set -u
name=$1; file=$2; old=$3; new=$4; shift 4
WT=/tmp/wt-mut-$$
git -C /repo worktree add -q $WT HEAD || exit 3
python3 - "$WT/$file" "$old" "$new" <<'PY'
import sys
p,old,new=sys.argv[1:4]
s=open(p).read()
if s.count(old)<1:
    print("MUTATION TARGET NOT FOUND"); sys.exit(1)
s=s.replace(old,new,1)
open(p,'w').write(s)
PY
if [ $? -ne 0 ]; then git -C /repo worktree remove --force $WT; exit 3; fi
( cd $WT && GOFLAGS=-mod=mod GOPROXY=off GOSUMDB=off GOTOOLCHAIN=local go build . ./internal/... ./raftpb/... ./tools/... 2>&1 | tail -5; exit ${PIPESTATUS[0]} ) || { echo "MUTANT DOES NOT BUILD"; git -C /repo worktree remove --force $WT; exit 3; }
for p in "$@"; do
  out=$(cd /verif && VF_REPO=$WT ./check $p quick 2>&1)
  rc=$?
  sig=$(echo "$out" | grep -o "VFSIG\[[^]]*\]" | sort | uniq -c | sort -rn | head -3 | tr '\n' ' ')
  echo "MUT $name prop=$p rc=$rc $sig"
done
git -C /repo worktree remove --force $WT
