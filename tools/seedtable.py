#!/usr/bin/env python3
"""Regenerates /verif/seeded/README.md from seeded/*/meta.json."""
import glob, json, os
V = os.path.dirname(os.path.dirname(os.path.abspath(__file__)))
rows = []
for d in sorted(glob.glob(os.path.join(V, "seeded", "*", "meta.json"))):
    m = json.load(open(d))
    v = m.get("verification", {})
    name = os.path.basename(os.path.dirname(d))
    files = ", ".join(v.get("files_changed") or m.get("files_changed") or [])
    summ = (m.get("summary") or "").replace("\n", " ")
    summ = summ[:260] + ("..." if len(summ) > 260 else "")
    needs = (m.get("needs_to_manifest") or "").replace("\n", " ")
    needs = needs[:220] + ("..." if len(needs) > 220 else "")
    caught, missed = [], []
    for p, c in sorted(v.get("checks", {}).items()):
        if c["exit"] == 1:
            caught.append("%s (%s)" % (p, ", ".join(c["signatures"][:2]) or "crash/unsigned"))
        else:
            missed.append("%s (rc=%d)" % (p, c["exit"]))
    ok = all(v.get("steps", {}).values()) if v.get("steps") else False
    rows.append("| %s | %s | %s | %s | %s | %s | %s | %s |" % (name, m.get("property"), files, summ, needs, "yes" if ok else "NO", "; ".join(caught) or "-", "; ".join(missed) or "-"))
out = ["# Seeded changes (written by independent sub-agents from the property text only)", "",
       "Each directory holds `patch.diff` (applies to /repo HEAD with `git -C /repo apply`), the demonstration test and `meta.json`",
       "(the agent's description plus `verification`: what `tools/seedeval.py` confirmed in a scratch worktree - demo passes without the",
       "change, patch applies and builds, demo fails with the change, existing tests of the touched + core packages pass - and the exit code",
       "and signatures of every `./check <ID> quick` run against the changed tree).", "",
       "| seed | property | files | change | needs to manifest | verified | caught by (quick) | not caught by |", "|---|---|---|---|---|---|---|---|"] + rows
open(os.path.join(V, "seeded", "README.md"), "w").write("\n".join(out) + "\n")
print(len(rows), "seeds")
