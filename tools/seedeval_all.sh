#!/bin/bash
# Fresh re-evaluation of every kept seeded change against the current /repo HEAD and the
# current checks (own property first, then the properties tried before). Two at a time.
# usage: tools/seedeval_all.sh [name ...]      (default: every directory under seeded/)
cd "$(dirname "$0")/.."
names=("$@")
if [ ${#names[@]} -eq 0 ]; then
  names=($(ls -d seeded/C* | xargs -n1 basename))
fi
printf '%s\n' "${names[@]}" | xargs -P 2 -I{} bash -c 'id=$(echo {} | cut -c1-3); python3 tools/seedeval.py $id --src seeded/{} --name {} --fresh --reuse-existing > /tmp/seedeval-final-{}.log 2>&1; grep "^CHECK" /tmp/seedeval-final-{}.log'
python3 tools/seedtable.py
