#!/usr/bin/env python3
"""
tools/mkseedprompt.py <ID> <wave> <direction-key>   -> prints the prompt for one seeding sub-agent

The prompt contains ONLY the text of the property (from properties.jsonl) and the rules of
the exercise; nothing from /verif. Directions (added from wave 2 on so that the agents do
not all attack the same guard) are kept in DIRECTIONS below.
"""
import json
import os
import sys

VERIF = os.path.dirname(os.path.dirname(os.path.abspath(__file__)))

DIRECTIONS = {
    "config": (
        "many other engineers already produced changes for this property in the obvious places. To get a DIFFERENT one, "
        "look at how the property is affected by NON-DEFAULT but legal CONFIGURATIONS and the interplay of features: witness replicas "
        "(Config.IsWitness, metadata-only entries, witness snapshots), non-voting replicas and their promotion, Config.Quiesce, "
        "NotifyCommit, OrderedConfigChange, EntryCompressionType / SnapshotCompressionType (Snappy), MaxInMemLogSize (rate limiting, "
        "internal/server/rate.go, RateLimit messages), DisableAutoCompactions, CompactionOverhead 0 or larger than SnapshotEntries, "
        "PreVote / CheckQuorum, IConcurrentStateMachine / IOnDiskStateMachine (Open index, Sync, PrepareSnapshot, streamed snapshots), "
        "the Tan log store versus the default sharded Pebble store (batched entries on/off), MaxSnapshotSendBytesPerSecond, "
        "MaxSendQueueSize / MaxReceiveQueueSize, NodeHostConfig.Expert engine settings, small soft settings (dragonboat-soft-settings.json). "
        "Choose a code path that only one such configuration reaches and break the property there with a change a maintainer could "
        "plausibly have made as a cleanup or small optimisation; the default configuration must keep working."),
    "errors": (
        "many other engineers already produced changes for this property in the obvious places. To get a DIFFERENT one, look at "
        "ERROR-HANDLING, CLEANUP and RETRY paths of the code the property is anchored in: an error that is swallowed, logged or converted "
        "to success; a partial failure after which in-memory bookkeeping (a cache, a cursor, a flag, a map entry, a reference count) is "
        "not rolled back or is rolled back too far; a deferred cleanup that runs in the wrong order or on the wrong object; a retry that "
        "re-uses state of the failed attempt; an early return that skips a notification, an unlock, a Close or a sync; a rejected / "
        "dropped / aborted operation (rejected config change, dropped proposal, aborted snapshot, ErrSnapshotOutOfDate, ErrSnapshotStopped, "
        "ErrSnapshotAborted, a failed stream, a timed out request, an unreachable report, a full queue) whose side effects are not undone. "
        "The failure itself must be one that really happens in operation (a legal rejection, a timeout, a stopped replica, a concurrent "
        "snapshot, a full queue, an injected storage error), not a malformed input. Choose a change a maintainer could plausibly have "
        "made as a simplification."),
    "twosite": (
        "many other engineers already produced single-site changes for this property. To get a DIFFERENT one, produce a change made of TWO "
        "cooperating edits in different functions (preferably different files) that each look harmless - even like an improvement - when "
        "reviewed alone, but that together break the property: e.g. one site stops maintaining an invariant that another site now starts "
        "to rely on; a value is cached at one site and the invalidation at another site is narrowed; a check is moved from callee to caller "
        "and one caller is forgotten; a field changes meaning (inclusive/exclusive, before/after increment) at the producer but not at one "
        "consumer; a lock is split in two and one reader takes the wrong half. Each edit alone should keep the property (say so in meta.json "
        "if you verified that), both together break it only in a specific multi-step situation."),
    "concurrency": (
        "many other engineers already produced changes for this property in the obvious places. To get a DIFFERENT one, look at the "
        "CONCURRENCY of the code the property is anchored in: dragonboat runs step, commit, apply and snapshot workers, tick and close "
        "goroutines, transport send/receive goroutines and user goroutines in parallel. Look for a lock whose scope can be narrowed or "
        "that can be dropped around a read 'because the value is only written by one goroutine', an RWMutex taken in the wrong mode, "
        "a check-then-act sequence split across two critical sections, an atomic flag tested before instead of after the state it guards, "
        "a notification sent before the state it announces is published, a double-buffered queue swapped at the wrong moment, a stopper / "
        "stop channel consulted too late or too early, a reference count incremented after the object is handed over. The breakage must "
        "be a semantic violation of the property under a specific interleaving of these goroutines (your demonstration may force the "
        "interleaving with a slow state machine, a blocking hook in a test double, channels or short sleeps), not merely a data race "
        "report."),
    "reuse": (
        "many other engineers already produced changes for this property in the obvious places. To get a DIFFERENT one, look at "
        "PERFORMANCE OPTIMISATIONS around the code the property is anchored in and make one of them subtly wrong, or add a new plausible "
        "one: buffer / slice reuse and aliasing (a slice handed out and later overwritten, append into spare capacity shared with a "
        "caller, a zero-copy fast path that skips a check the slow path performs), object pooling (sync.Pool, RequestState reuse, entry "
        "batches) with one field not reset, caches (LRU, last-batch, hard-state, max-index, term caches) with an invalidation narrowed, "
        "batching / coalescing of several operations into one where one of them is dropped or reordered at a batch boundary, lazily "
        "computed values that are not recomputed after the input changed, skipping 'redundant' writes, syncs or messages. The fast path "
        "must keep ordinary runs working and break the property only for a specific size, boundary, sequence or timing."),
    "recovery": (
        "many other engineers already produced changes for this property in the obvious places. To get a DIFFERENT one, look at the code "
        "that runs only when a replica STARTS, RESTARTS, REJOINS or RECOVERS: NodeHost.startShard / bootstrapShard and bootstrap records, "
        "node.replayLog and the initial snapshot recovery, raft.Launch / newRaft / loadState / restore and becoming follower after restart, "
        "LogReader initialisation (SetRange, ApplySnapshot, markerIndex), log store open paths (sharded Pebble open, Tan open / rebuildLog / "
        "rebuildIndex / manifest replay), snapshotter.processOrphans and GetSnapshotFromLogDB, session and membership restore from a "
        "snapshot, on-disk state machine Open index handling, a stopped replica started again in the same process, a replica started with "
        "join=true, restarts that happen twice in a row. Break the property only for histories that include such a restart at a specific "
        "moment (after a specific kind of entry, snapshot, compaction or membership change), so that a cluster that never restarts behaves "
        "as before."),
    "timing": (
        "many other engineers already produced changes for this property in the obvious places. To get a DIFFERENT one, look at TIME: "
        "everything in dragonboat is driven by logical ticks (NodeHost tick worker, LocalTick messages, node.tick, raft election / "
        "heartbeat / check-quorum / leader-transfer timers, randomized election timeouts, quiesce thresholds and quiesced ticks, request "
        "deadlines and the gc interval of the pending-request tables, snapshot chunk timeouts and gc ticks in the transport, delayed "
        "snapshot-status messages in the message queue, in-memory log gc timeouts, rate limiter ticks, the LRU / idle timers). Make ONE "
        "of these computations subtly wrong in a way a maintainer could plausibly have written: a deadline computed from the wrong "
        "clock or before the clock was advanced, < versus <= on an expiry, a timer not reset (or reset too often) on a state change, a "
        "tick that is skipped or counted twice in one state (quiesced, busy snapshotting, transferring leadership, partitioned), a "
        "threshold derived from the wrong RTT constant. The default happy path must keep working; the property must break only after a "
        "specific amount of (idle or busy) time, a specific sequence of state changes or a specific relation between two timeouts."),
    "stmtorder": (
        "many other engineers already produced changes for this property in the obvious places. To get a DIFFERENT one, look for places "
        "where the ORDER OF TWO STATEMENTS (or two calls, two messages, two writes, two notifications) inside one function matters and "
        "swap or regroup them as a plausible tidy-up: state published before it is complete, a notification / wake-up sent before the "
        "data it announces is stored, a message appended to the outbox before versus after a state change, an index advanced before "
        "versus after the entry is handed over, a file renamed before it is synced, a cache updated before the write that may fail, a "
        "flag cleared before the work it protects is done, a deferred call that now runs before instead of after another deferred call, "
        "a lock released one statement too early. Sequentially both orders look equivalent and the existing tests pass; the property "
        "must break only when something specific happens between the two statements (another worker runs, a crash, an error return, a "
        "message arrives) or only for inputs where the first statement changes what the second one sees."),
    "arith": (
        "many other engineers already produced changes for this property in the obvious places. To get a DIFFERENT one, look at "
        "ARITHMETIC and SIZE ACCOUNTING in the code the property is anchored in: uint64 subtraction that can underflow, an off-by-one "
        "between inclusive and exclusive bounds ([first,last) versus [first,last]), index <-> slice-offset conversions (index - marker, "
        "index - first), size limits (maxSize / MaxEntrySize / maxEntriesToApplySize / batch size / block size / chunk size / "
        "MaxInMemLogSize / rate limiter byte counts / SizeUpperLimit) where the accounted size and the real size drift apart, counters "
        "that are incremented on one path and not decremented on another, quorum / majority arithmetic for even sizes, ticks / terms / "
        "indexes compared with the wrong one of <, <=, a modulo used for sharding or batching that maps two keys to the same slot. The "
        "error must stay invisible for the common small values and show only at a boundary value, an exact multiple, an empty or "
        "maximal range, an even member count, or after a specific sequence that makes the two sides of the accounting diverge."),
    "otherfiles": (
        "many other engineers already produced changes for this property, almost all of them in the same few files. Your change must NOT "
        "touch any of these files: internal/raft/raft.go, internal/raft/inmemory.go, internal/raft/readindex.go, "
        "internal/rsm/statemachine.go, internal/rsm/lrusession.go, internal/rsm/rwv.go, request.go, node.go, engine.go, "
        "internal/transport/chunk.go, internal/transport/snapshot.go, internal/tan/node_states.go, internal/tan/index.go, internal/tan/db.go, "
        "internal/logdb/cache.go, internal/logdb/db.go. Find ANOTHER non-test source file that takes part in making the property hold - "
        "for example (whichever are relevant to this property) nodehost.go, snapshotter.go, snapshotstate.go, quiesce.go, queue.go, "
        "internal/raft/{remote.go,logentry.go,entryutils.go,peer.go,rate limiting}, internal/rsm/{sessionmanager.go,session.go,managed.go,"
        "taskqueue.go,files.go,offload.go,encoded.go,adapter.go,membership.go,snapshotio.go,chunkwriter.go}, internal/logdb/{sharded.go,"
        "logreader.go,batch.go,plain.go,key.go,compaction.go,kv/pebble/*.go}, internal/tan/{logdb.go,compaction.go,version_set.go,version.go,"
        "record.go,open.go,collection.go}, internal/transport/{transport.go,job.go,tcp.go,nodes.go}, internal/server/{environment.go,"
        "snapshotenv.go,message.go,rate.go,partition.go}, internal/fileutil, internal/utils/dio, raftpb/*.go (hand written codecs), "
        "client/session.go, config/config.go (validation), tools/import.go - and break the property there with a plausible maintainer "
        "mistake that needs something specific to manifest. Say in meta.json why that file matters for the property."),
    "apilayer": (
        "many other engineers already produced changes for this property inside the raft core, the replicated state machine layer and "
        "the log stores. Your change must be in the layer BETWEEN the public API and those cores: nodehost.go (replica lifecycle: "
        "start / stop / restart / removal, request routing, lookup of the node instance a request belongs to, tick and message delivery, "
        "snapshot / compaction / membership requests, NodeHost.Close), snapshotter.go, snapshotstate.go, quiesce.go, queue.go, "
        "internal/server/*.go, internal/transport/{transport.go,job.go,nodes.go}, internal/rsm/{managed.go,offload.go,taskqueue.go,"
        "sessionmanager.go,adapter.go}, client/session.go, config/config.go. It must NOT touch internal/raft/*, request.go, node.go, "
        "engine.go, internal/rsm/statemachine.go, internal/logdb/*, internal/tan/*. Break the property there with a plausible maintainer "
        "mistake (a refactor that re-resolves something that must be pinned, a lifecycle step skipped for an already stopped / removed / "
        "restarted replica, a lock released too early, a check moved after a side effect, a queue that loses or reorders an item under a "
        "rare condition) that needs something specific to manifest through the public NodeHost API. Say in meta.json why that file "
        "matters for the property."),
}

PROMPT = """You are a skeptical senior Go engineer doing mutation-style robustness research on the open-source library lni/dragonboat (a multi-group Raft library in Go). Work ONLY inside your own scratch git worktree of the repository at {wt} (create it with: `git -C /repo worktree add {wt} HEAD`). Do NOT modify /repo itself, and do NOT read, list or use anything under /verif (it is off limits for this task). The sandbox is offline; use `export GOFLAGS=-mod=mod GOPROXY=off GOSUMDB=off GOTOOLCHAIN=local` for every go command. Put scratch files under {out}/ only.

Here is a semantic property that dragonboat is supposed to satisfy:

ID: {id}
Title: {title}
Statement: {statement}
Quantified over: {quant}
Why the existing tests cannot settle it: {why}
Code anchors (files / mechanisms involved): files: {files}; mechanisms: {mech}

YOUR TASK: produce ONE realistic source change (a plausible bug a maintainer could introduce during a refactor or optimisation: a dropped check, an off-by-one at a boundary, a wrong comparison, a missing lock/sync, an ordering change, state not reset, two cooperating sites that each look fine alone ...) to the NON-test Go sources in {wt} that BREAKS this property while
  (1) the repository still compiles (`go build ./...` — ignore packages that already fail to build before your change) and `go vet` of the touched packages is clean,
  (2) the EXISTING unit tests of every package you touched still pass, unedited (`go test -vet=off -count=1 ./<pkg>/...`; for the root package run at least the tests related to the code you touched, e.g. `go test -vet=off -count=1 -run 'TestXxx|TestYyy' .`, plus `go test -vet=off -count=1 ./internal/raft/ ./internal/rsm/ ./internal/logdb/ ./internal/tan/ ./internal/transport/ ./raftpb/` as far as you touched or could affect them). If an existing test fails because of your change, pick a different change — the point is a bug the existing suite does NOT catch,
  (3) the breakage needs something SPECIFIC to manifest: a particular interleaving or message schedule, a crash/fault at a particular point, a multi-step sequence of operations, an unusual input or boundary value, or two cooperating sites. Do NOT produce a change that ordinary use (start a cluster, write a value, read it back) would expose at once, and do not produce a change that makes the code panic or fail on every run.
Then write a DEMONSTRATION: a Go test (placed in the appropriate package directory of the worktree as a new file named {demo}, or a small program) that FAILS with your change applied and PASSES on the unmodified code, and that shows the property itself being violated (not merely a changed internal value): e.g. two replicas applying different entries, a stale read, a lost acknowledged write, a corrupt snapshot accepted, a request with no/duplicate result, etc. White-box tests inside the package are fine. Name the test function(s) TestSeed{wave}{id}... . Verify both directions yourself (`git diff > patch; git checkout <file>` etc.).

DELIVERABLES in {out}/ :
  - patch.diff : `git diff` of the NON-test source change only (must apply with `git apply` on a clean checkout of HEAD),
  - the demonstration test file(s) (copy of {demo}; say in meta.json which package directory it belongs to),
  - meta.json : {{"property": "{id}", "summary": "<one paragraph: what was changed and why it breaks the property>", "files_changed": [...], "needs_to_manifest": "<the specific schedule / crash point / sequence / input needed>", "demo": {{"package_dir": "<dir relative to repo root>", "file": "{demo}", "run": "<exact go test command>"}}, "existing_tests_run": ["<commands you ran and their result>"]}}
When finished, remove your worktree with `git -C /repo worktree remove --force {wt}` (after copying the deliverables out). Your final message: a short summary of the change, what it needs to manifest, and the verification you did. Be efficient: aim to finish within about 40 minutes of work; prefer a small, surgical change.

ADDITIONAL DIRECTION FOR THIS RUN: {direction} Never use pkill/killall or git stash (the git repository and the machine are shared with other jobs)."""


def main():
    pid, wave, dkey = sys.argv[1], sys.argv[2], sys.argv[3]
    prop = None
    for line in open(os.path.join(VERIF, "properties.jsonl")):
        d = json.loads(line)
        if d["id"] == pid:
            prop = d
    a = prop["anchors"]
    mech = "; ".join("%s (%s)" % (m["name"], m.get("where", "")) for m in a.get("mechanism", []))
    print(PROMPT.format(
        wt="/tmp/seed%s-%s" % (wave, pid), out="/tmp/seed%s-%s-out" % (wave, pid), id=pid, wave=wave,
        title=prop["title"], statement=prop["statement"], quant=prop["quantifier"]["text"],
        why=prop["why_tests_cant"], files=", ".join(a.get("files", [])), mech=mech,
        demo="zz_seed%s_%s_test.go" % (wave, pid), direction=DIRECTIONS[dkey]))


if __name__ == "__main__":
    main()
