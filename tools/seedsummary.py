#!/usr/bin/env python3
"""Writes the compact seeded-change table of DESIGN.md section 9.3 (between the markers
<!-- SEEDTABLE BEGIN --> and <!-- SEEDTABLE END -->) from seeded/*/meta.json."""
import glob, json, os, re
V = os.path.dirname(os.path.dirname(os.path.abspath(__file__)))
rows, own_hit, other_hit, missed, total = [], 0, 0, 0, 0
waves = {"": 1, "b": 2, "c": 3, "d": 4, "e": 5, "f": 6, "g": 7, "h": 8, "i": 9, "j": 10, "k": 11, "l": 12}
for d in sorted(glob.glob(os.path.join(V, "seeded", "C*", "meta.json"))):
    m = json.load(open(d))
    v = m.get("verification", {})
    name = os.path.basename(os.path.dirname(d))
    prop = m.get("property")
    files = ", ".join(os.path.basename(f) if f.count("/") == 0 else f for f in (v.get("files_changed") or m.get("files_changed") or []))
    checks = v.get("checks", {})
    own = checks.get(prop, {})
    own_s = ("**yes** (" + ", ".join(own.get("signatures", [])[:2] or ["crash/unsigned"]) + ")") if own.get("exit") == 1 else ("no (exit %s)" % own.get("exit"))
    others = ["%s (%s)" % (p, ", ".join(c["signatures"][:1]) or "crash/unsigned") for p, c in sorted(checks.items()) if p != prop and c["exit"] == 1]
    ok = all(v.get("steps", {}).values()) if v.get("steps") else False
    total += 1
    if own.get("exit") == 1:
        own_hit += 1
    elif others:
        other_hit += 1
    else:
        missed += 1
    summ = re.sub(r"\s+", " ", m.get("summary") or "")
    summ = summ[:150] + ("..." if len(summ) > 150 else "")
    rows.append("| %s | %d | %s | %s | %s | %s | %s |" % (name, waves.get(name[3:], 0), files, summ, "yes" if ok else "NO", own_s, "; ".join(others) or "-"))
head = ["%d kept seeded changes (12 waves; every one written by a fresh sub-agent from the property text and its own scratch worktree only, confirmed by `tools/seedeval.py`: "
        "demonstration passes on HEAD, patch applies and builds, demonstration fails with the patch, the existing tests of the touched and the core packages pass with it). "
        "Result of the most recent run of the QUICK tier against each changed tree (every seed was re-run after the last change to a check that reports it; later changes to the harness only added units and schedule points): %d are caught by a check of their own property, %d only by a check of another property, %d by none."
        % (total, own_hit, other_hit, missed), "",
        "| seed | wave | file(s) | change (agent's summary, shortened) | confirmed | caught by its own property's quick check | also caught by |", "|---|---|---|---|---|---|---|"]
text = "\n".join(head + rows)
p = os.path.join(V, "DESIGN.md")
s = open(p).read()
b, e = "<!-- SEEDTABLE BEGIN -->", "<!-- SEEDTABLE END -->"
if b in s:
    s = s[:s.index(b) + len(b)] + "\n" + text + "\n" + s[s.index(e):]
    open(p, "w").write(s)
print(total, own_hit, other_hit, missed)
