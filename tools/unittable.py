#!/usr/bin/env python3
"""Writes the table of registered units (from conf/*.json) into DESIGN.md Appendix B between
<!-- UNITTABLE BEGIN --> and <!-- UNITTABLE END -->."""
import os, sys
V = os.path.dirname(os.path.dirname(os.path.abspath(__file__)))
sys.path.insert(0, V)
from vfconf import PROPS
rows = ["| id | package | unit | quick (cases x shards) | thorough (cases x shards) |", "|---|---|---|---|---|"]
for pid in sorted(PROPS):
    for u in PROPS[pid]["units"]:
        def f(t):
            t = u.get(t, {})
            if not u.get("rapid", True):
                return "fixed scenario"
            return "%s x %s" % (t.get("checks", 1), t.get("shards", 1))
        rows.append("| %s | %s | %s%s | %s | %s |" % (pid, u["pkg"], u["test"], " (-race)" if u.get("race") else "", f("quick"), f("thorough")))
p = os.path.join(V, "DESIGN.md")
s = open(p).read()
b, e = "<!-- UNITTABLE BEGIN -->", "<!-- UNITTABLE END -->"
s = s[:s.index(b) + len(b)] + "\n" + "\n".join(rows) + "\n" + s[s.index(e):]
open(p, "w").write(s)
print(len(rows) - 2, "units")
