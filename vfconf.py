"""Loads the per-property check configuration from /verif/conf/*.json.

conf/<ID>.json           : {"level": ..., "assumptions": [...], "overlay": [...], "units": [...]}
conf/<ID>.<engine>.json  : {"overlay": [...], "units": [...], "assumptions": [...]} merged into <ID>

unit: {"pkg": "./internal/vfx/codec", "test": "TestVF_C13_Entry",
       "quick": {"checks": 2000, "shards": 1, "timeout": 600, "steps": 40, "env": {}, "args": []},
       "thorough": {...}, "rapid": true, "race": false, "weight": 1, "env": {}, "files": {}}
"""
import glob
import json
import os

HERE = os.path.dirname(os.path.abspath(__file__))
PROPS = {}
for path in sorted(glob.glob(os.path.join(HERE, "conf", "*.json"))):
    base = os.path.basename(path)[:-5]
    pid = base.split(".")[0]
    with open(path) as f:
        c = json.load(f)
    p = PROPS.setdefault(pid, {"level": "exploration", "assumptions": [], "overlay": [], "units": []})
    for k in ("level", "exhaustive_key"):
        if k in c:
            p[k] = c[k]
    p["assumptions"] += c.get("assumptions", [])
    for o in c.get("overlay", []):
        if o not in p["overlay"]:
            p["overlay"].append(o)
    p["units"] += c.get("units", [])
