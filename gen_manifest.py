#!/usr/bin/env python3
"""Generates MANIFEST.json from manifest_src.json (claims) + properties.jsonl (ids)."""
import glob, json, os
HERE = os.path.dirname(os.path.abspath(__file__))
src = json.load(open(os.path.join(HERE, "manifest_src.json")))
ids = [json.loads(l)["id"] for l in open(os.path.join(HERE, "properties.jsonl"))]
checks, na = [], []
for pid in ids:
    c = src["claims"].get(pid)
    if c and c.get("claimed", True) and (glob.glob(os.path.join(HERE, "conf", pid + ".json")) or glob.glob(os.path.join(HERE, "conf", pid + ".*.json"))):
        checks.append({
            "property_id": pid,
            "quick_cmd": "./check %s quick" % pid,
            "thorough_cmd": "./check %s thorough" % pid,
            "evidence_file": "/verif/evidence/%s.json" % pid,
            "replay_cmd_template": "./check %s --replay {path}" % pid,
            "engine": c["engine"],
            "level_claimed": {"category": c["level"], "text": c["text"], "design_ref": c["design_ref"]},
            "level_note": c["note"],
            "technique": c["technique"],
        })
    else:
        na.append({"property_id": pid, "reason": (c or {}).get("na_reason", "check not built yet (work in progress); the design in DESIGN.md section 3 applies property-based testing to it")})
m = {
    "version": 1,
    "setup_cmd": "./setup.sh",
    "hooks": src["hooks"],
    "engines": src["engines"],
    "checks": checks,
    "notes": src["notes"],
    "not_applicable": na,
}
json.dump(m, open(os.path.join(HERE, "MANIFEST.json"), "w"), indent=1)
print("claimed", len(checks), "not_applicable", len(na))
